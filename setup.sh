#!/bin/sh
# Offline setup: nothing to install.  The machinery is pure Python run by
# /venv/bin/python (the interpreter the repository is installed in) plus gcc
# and rsync, all present on the image.  This script only verifies that.
set -e
cd "$(dirname "$0")"
/venv/bin/python -c "import sys; assert sys.version_info[:2] >= (3, 10); import numpy"
command -v gcc >/dev/null
command -v rsync >/dev/null
mkdir -p evidence replays
chmod +x check tools/*.py 2>/dev/null || true
echo "simtraits setup ok"
