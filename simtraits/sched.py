"""Simulated threads and deferred-dispatch queues.

Everything runs on one OS thread.  ``traits.trait_notifiers.threading`` is
replaced by a shim whose ``current_thread()`` is the simulator's *current
simulated thread*; ``traits.trait_notifiers.Thread`` is replaced by SimThread
whose ``start()`` enqueues a task; the public ``set_ui_handler`` installs the
simulator's UI queue.  Which queued entry runs next is decided by ``deliver``
ops of the trace (seeded), never by the OS.
"""
import threading as _real_threading


class _SimThreadIdent:
    __slots__ = ("name",)

    def __init__(self, name):
        self.name = name

    def __repr__(self):
        return "<simthread %s>" % self.name


class Sched:
    def __init__(self, env):
        self.env = env
        self.main = _SimThreadIdent("main")
        self.cur = self.main
        self.idents = {"main": self.main}
        self.queue = []          # entries: dict(kind, origin, seq, fn, args, kw)
        self.enqueued = 0
        self.delivered = 0
        self.escaped = []        # (origin, kind, exception) escaping a deferred call
        self.origin = None       # op index a running deferred call originated from
        self.now = None          # executor-assigned origin id of the running op/probe
        self._saved = None
        self.nthreads = 0

    # -- shim ------------------------------------------------------------------
    def current_thread(self):
        return self.cur

    def main_thread(self):
        return self.main

    def __getattr__(self, name):
        # anything else the module asks of ``threading``
        return getattr(_real_threading, name)

    def install(self, ui=True):
        """``ui=False``: no UI handler yet (an application whose toolkit is
        initialised later): ``install_ui`` sets it at a point the trace chooses;
        until then every simulated change happens on the main thread."""
        import traits.trait_notifiers as tn
        self._saved = (tn.threading, tn.Thread, tn.ui_handler)
        tn.threading = self
        sched = self

        class SimThread:
            def __init__(self, target=None, args=(), kwargs=None, **_):
                self.target = target
                self.args = args
                self.kwargs = kwargs or {}

            def start(self):
                sched.enqueue("new", self.target, self.args, self.kwargs)

        tn.Thread = SimThread
        self.ui_installed = False
        if ui:
            self.install_ui()
        else:
            tn.set_ui_handler(None)

    def install_ui(self):
        import traits.trait_notifiers as tn
        tn.set_ui_handler(self.ui_handler)
        self.ui_installed = True

    def uninstall(self):
        if self._saved is not None:
            import traits.trait_notifiers as tn
            tn.threading, tn.Thread, tn.ui_handler = self._saved
            self._saved = None

    # -- queues ----------------------------------------------------------------
    def switch(self, name):
        if not getattr(self, "ui_installed", True):
            return          # no toolkit yet: everything happens on the main thread
        t = self.idents.get(name)
        if t is None:
            t = self.idents[name] = _SimThreadIdent(name)
        self.cur = t

    def cur_origin(self):
        if self.origin is not None:
            return self.origin
        return self.now if self.now is not None else self.env.op_index

    def ui_handler(self, handler, *args, **kw):
        self.enqueue("ui", handler, args, kw)

    def enqueue(self, kind, fn, args, kw):
        self.enqueued += 1
        self.queue.append({"kind": kind, "origin": self.cur_origin(),
                           "seq": self.enqueued, "fn": fn, "args": args, "kw": kw})
        self.env.log("enqueue", (kind, self.enqueued))
        self.env.probe("deferred-enqueued-" + kind)

    def deliver(self, index):
        """Run the queue entry at ``index`` (modulo length)."""
        if not self.queue:
            return False
        e = self.queue.pop(index % len(self.queue))
        self.delivered += 1
        prev_cur, prev_origin = self.cur, self.origin
        if e["kind"] == "ui":
            self.cur = self.main
        else:
            self.nthreads += 1
            self.cur = _SimThreadIdent("t%d" % self.nthreads)
        self.origin = e["origin"]
        self.env.log("deliver", (e["kind"], e["seq"]))
        try:
            e["fn"](*e["args"], **e["kw"])
        except Exception as exc:      # noqa: BLE001 - what an event loop / excepthook sees
            self.escaped.append((e["origin"], e["kind"], exc))
            self.env.log("escaped", (e["kind"], type(exc).__name__))
        finally:
            self.cur, self.origin = prev_cur, prev_origin
        return True

    def drain(self, policy="fifo", rng=None, cap=10000):
        """Bounded liveness: once ops stop, every queue empties within
        (#entries) deliveries."""
        n = 0
        while self.queue:
            n += 1
            if n > cap:
                return False
            if policy == "lifo":
                self.deliver(-1)
            else:
                self.deliver(0)
        return True
