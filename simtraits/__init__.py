"""simtraits: deterministic simulation with fault injection for enthought/traits.

See /verif/DESIGN.md.  Nothing in this package imports ``traits`` at import
time of the package itself; property modules do, and they are only imported in
the runner process whose PYTHONPATH points at a scratch build of /repo's
working tree (simtraits.build).
"""
