"""Snapshot /repo's working tree into a scratch directory and compile ctraits.

The scratch directory lives outside /repo and /verif (``/dev/shm`` if present,
else ``$TMPDIR``), is first on PYTHONPATH of the runner (it shadows the
editable install, asserted by the runner) and is removed by the driver on exit.
"""
import os
import shutil
import subprocess
import sys
import sysconfig
import tempfile

REPO = os.environ.get("VERIF_REPO", "/repo")

EXCLUDES = [
    "--exclude=tests/", "--exclude=__pycache__/", "--exclude=*.so",
    "--exclude=*.pyc", "--exclude=stubs_tests/", "--exclude=examples/",
    "--exclude=*.pyi",
]


def scratch_root():
    for base in ("/dev/shm", os.environ.get("TMPDIR", "/tmp")):
        if os.path.isdir(base) and os.access(base, os.W_OK):
            return base
    return tempfile.gettempdir()


def _cc_cmd(src, out, sanitize):
    inc = sysconfig.get_paths()["include"]
    if sanitize:
        flags = ["-O1", "-g", "-fno-omit-frame-pointer",
                 "-fsanitize=address,undefined",
                 "-fno-sanitize-recover=undefined"]
    else:
        flags = ["-O2", "-g0", "-DNDEBUG"]
    return (["gcc", "-shared", "-fPIC", "-fno-strict-overflow", "-w"] + flags
            + ["-I", inc, src, "-o", out])


def build(sanitize=False, repo=None):
    """Return the scratch directory containing a freshly built ``traits``."""
    repo = repo or REPO
    src = os.path.join(repo, "traits")
    if not os.path.isdir(src):
        raise SystemExit("HARNESS-ERROR build: no traits package under %s" % repo)
    root = tempfile.mkdtemp(prefix="simtraits.%d." % os.getpid(),
                            dir=scratch_root())
    dst = os.path.join(root, "traits")
    try:
        subprocess.run(["rsync", "-a"] + EXCLUDES + [src + "/", dst + "/"],
                       check=True)
        # the test-support helpers are needed by nobody; keep traits.testing
        ext = sysconfig.get_config_var("EXT_SUFFIX")
        out = os.path.join(dst, "ctraits" + ext)
        cmd = _cc_cmd(os.path.join(dst, "ctraits.c"), out, sanitize)
        p = subprocess.run(cmd, capture_output=True, text=True)
        if p.returncode != 0:
            sys.stderr.write(p.stdout + p.stderr)
            raise SystemExit("HARNESS-ERROR build: gcc failed on ctraits.c")
    except BaseException:
        shutil.rmtree(root, ignore_errors=True)
        raise
    return root


def runner_env(root, hashseed="0", sanitize=False):
    env = dict(os.environ)
    verif = os.path.dirname(os.path.dirname(os.path.abspath(__file__)))
    env["PYTHONPATH"] = root + os.pathsep + verif
    env["PYTHONHASHSEED"] = str(hashseed)
    env["SIMTRAITS_ROOT"] = root
    env["PYTHONDONTWRITEBYTECODE"] = "1"
    env["ETS_TOOLKIT"] = "null"
    env.pop("PYTHONSTARTUP", None)
    if sanitize:
        gccdir = subprocess.run(
            ["gcc", "-print-file-name=libasan.so"], capture_output=True,
            text=True).stdout.strip()
        ubsan = subprocess.run(
            ["gcc", "-print-file-name=libubsan.so"], capture_output=True,
            text=True).stdout.strip()
        env["LD_PRELOAD"] = os.path.realpath(gccdir) + ":" + os.path.realpath(ubsan)
        env["PYTHONMALLOC"] = "malloc"
        env["ASAN_OPTIONS"] = ("detect_leaks=0:abort_on_error=1:"
                               "allocator_may_return_null=1:"
                               "handle_segv=1:symbolize=1")
        env["UBSAN_OPTIONS"] = "print_stacktrace=1:halt_on_error=1"
    return env


def cleanup(root):
    if root and os.path.basename(root).startswith("simtraits."):
        shutil.rmtree(root, ignore_errors=True)


def tree_fingerprint(repo=None):
    """SHA-256 over the traits sources that are built (for replay files)."""
    import hashlib
    repo = repo or REPO
    h = hashlib.sha256()
    base = os.path.join(repo, "traits")
    for dirpath, dirnames, filenames in sorted(os.walk(base)):
        dirnames[:] = sorted(d for d in dirnames
                             if d not in ("tests", "__pycache__",
                                          "stubs_tests", "examples"))
        for f in sorted(filenames):
            if f.endswith((".py", ".c", ".lark")):
                p = os.path.join(dirpath, f)
                h.update(os.path.relpath(p, base).encode())
                with open(p, "rb") as fh:
                    h.update(fh.read())
    return h.hexdigest()[:16]
