"""Node class with observed (cached and uncached) properties for C12.

Getters are callback points of the simulator: they count their runs per
(object, property) and compute from the *current* state of the objects.
"""
from traits.api import Int, Property, cached_property

from . import graph as G


def _point(obj, name):
    w = G.CUR["world"]
    if w is not None:
        w.getter_ran(obj, name)


def _val(x):
    return x.value if x is not None else 0


class PBase(G.Node):
    """Two observed properties are declared here and only their getters are
    overridden in PNode - one from uncached to cached, one the other way."""
    inh = Property(Int, observe="value")
    inh2 = Property(Int, observe="child.value")

    def _get_inh(self):
        return -1000

    @cached_property
    def _get_inh2(self):
        return -1000


class PNode(PBase):
    total = Property(Int, observe="children.items.value")
    deep = Property(Int, observe="child.children.items.value")
    tsum = Property(Int, observe="table.items.value")
    gsum = Property(Int, observe="group.items.value")
    ssum = Property(Int, observe="shelf.items.items.value")
    vplus = Property(Int, observe="value")
    unc = Property(Int, observe="child.value")
    two = Property(Int, observe="child.child.value")

    @cached_property
    def _get_total(self):
        _point(self, "total")
        return sum(c.value for c in self.children)

    @cached_property
    def _get_deep(self):
        _point(self, "deep")
        return sum(c.value for c in self.child.children) if self.child is not None else -1

    @cached_property
    def _get_tsum(self):
        _point(self, "tsum")
        return sum(c.value for c in self.table.values())

    @cached_property
    def _get_gsum(self):
        _point(self, "gsum")
        return sum(c.value for c in self.group)

    @cached_property
    def _get_ssum(self):
        _point(self, "ssum")
        return sum(c.value for row in self.shelf.values() for c in row)

    @cached_property
    def _get_vplus(self):
        _point(self, "vplus")
        return self.value + 1

    # class-level handlers that read cached properties: during a restore (pickle,
    # clone) they run while the object is half filled, so a cache they create must
    # be dropped again by the dependency observers, which are installed first
    def _value_changed(self, new):
        self.total
        self.tsum
        self.gsum
        self.ssum

    def _child_changed(self, new):
        self.deep

    @cached_property
    def _get_inh(self):
        _point(self, "inh")
        return self.value * 2

    def _get_inh2(self):
        _point(self, "inh2")
        return self.child.value + 7 if self.child is not None else -7

    def _get_unc(self):
        _point(self, "unc")
        return self.child.value if self.child is not None else -1

    def _get_two(self):
        _point(self, "two")
        c = self.child
        if c is None or c.child is None:
            return -1
        return c.child.value

    def __repr__(self):
        return "P%d" % self.uid


G.NODE_CLASSES["PNode"] = PNode

T = True
# name -> (cached, expression AST (for the level-aliasing guard), model function)
PROPS = {
    "total": (True, [[["t", "children", T], ["items", None, T], ["t", "value", T]]]),
    "deep": (True, [[["t", "child", T], ["t", "children", T], ["items", None, T], ["t", "value", T]]]),
    "tsum": (True, [[["t", "table", T], ["items", None, T], ["t", "value", T]]]),
    "gsum": (True, [[["t", "group", T], ["items", None, T], ["t", "value", T]]]),
    "ssum": (True, [[["t", "shelf", T], ["items", None, T], ["items", None, T], ["t", "value", T]]]),
    "vplus": (True, [[["t", "value", T]]]),
    "unc": (False, [[["t", "child", T], ["t", "value", T]]]),
    "two": (False, [[["t", "child", T], ["t", "child", T], ["t", "value", T]]]),
    "inh": (True, [[["t", "value", T]]]),
    "inh2": (False, [[["t", "child", T], ["t", "value", T]]]),
}
PROP_NAMES = sorted(PROPS)


def mval(m):
    v = m.value
    return 0 if v is G.UNSET else v


def _node(x):
    return x if isinstance(x, G.MNode) else None


def model_value(m, name):
    """Recompute a property from the model graph."""
    if name == "total":
        c = m.children
        return sum(mval(x) for x in c) if c is not G.UNSET else 0
    if name == "deep":
        ch = _node(m.child)
        if ch is None:
            return -1
        c = ch.children
        return sum(mval(x) for x in c) if c is not G.UNSET else 0
    if name == "tsum":
        t = m.table
        return sum(mval(x) for x in t.values()) if t is not G.UNSET else 0
    if name == "gsum":
        g = m.group
        return sum(mval(x) for x in g) if g is not G.UNSET else 0
    if name == "ssum":
        t = m.shelf
        return sum(mval(x) for row in t.values() for x in row) if t is not G.UNSET else 0
    if name == "vplus":
        return mval(m) + 1
    if name == "unc":
        ch = _node(m.child)
        return mval(ch) if ch is not None else -1
    if name == "inh":
        return mval(m) * 2
    if name == "inh2":
        ch = _node(m.child)
        return mval(ch) + 7 if ch is not None else -7
    if name == "two":
        ch = _node(m.child)
        if ch is None or _node(ch.child) is None:
            return -1
        return mval(ch.child)
    raise AssertionError(name)
