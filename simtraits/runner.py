"""Seeded search over simulated runs: worker pool, shrinking, replay files,
determinism cross-checks, known findings, evidence.

Runs inside the *runner process*, whose PYTHONPATH points at the scratch build
of /repo's working tree (see simtraits.build and /verif/check).
"""
import argparse
import faulthandler
import gc
import hashlib
import importlib
import json
import os
import subprocess
import sys
import time
import traceback
from collections import Counter
from concurrent.futures import ProcessPoolExecutor, wait, FIRST_COMPLETED
from concurrent.futures.process import BrokenProcessPool
import multiprocessing

from . import core
from .core import (Env, Violation, HarnessError, StepCap, run_seed)

VERIF = os.path.dirname(os.path.dirname(os.path.abspath(__file__)))
# mutant / scratch runs redirect evidence and replay files away from /verif
OUT = os.environ.get("VERIF_OUT") or VERIF

TIER_BUDGET = {"quick": 25.0, "thorough": 420.0}


# --------------------------------------------------------------------------
# loading

def load_prop(pid):
    mod = importlib.import_module("simtraits.props.%s" % pid.lower())
    return mod.PROP


def assert_scratch_build():
    root = os.environ.get("SIMTRAITS_ROOT")
    import traits
    import traits.ctraits
    if not root:
        raise HarnessError("SIMTRAITS_ROOT not set: runner must be started by /verif/check")
    for m in (traits, traits.ctraits):
        if not os.path.abspath(m.__file__).startswith(os.path.abspath(root)):
            raise HarnessError("%s loaded from %s, not from scratch build %s"
                               % (m.__name__, m.__file__, root))


# --------------------------------------------------------------------------
# executing one trace

class RunOutcome:
    __slots__ = ("env", "violation", "error")

    def __init__(self, env, violation, error):
        self.env = env
        self.violation = violation
        self.error = error


def execute_trace(prop, trace, record=False):
    env = Env(record=record, step_cap=getattr(prop, "STEP_CAP", 20000))
    viol = None
    err = None
    gc.disable()
    try:
        prop.execute(trace, env)
    except Violation as v:
        viol = v
    except StepCap as e:
        if getattr(prop, "STEPCAP_IS_VIOLATION", False):
            viol = Violation(prop.ID + ".termination", str(e))
        else:
            err = "StepCap: %s" % e
    except RecursionError as e:
        if getattr(prop, "STEPCAP_IS_VIOLATION", False):
            viol = Violation(prop.ID + ".termination", "RecursionError")
        else:
            err = "RecursionError escaped the executor"
    except HarnessError as e:
        err = "HarnessError: %s" % e
    except Exception:      # noqa: BLE001
        err = traceback.format_exc()
    finally:
        try:
            cleanup = getattr(prop, "cleanup", None)
            if cleanup is not None:
                cleanup()
        except Exception:      # noqa: BLE001
            err = (err or "") + "\ncleanup: " + traceback.format_exc()
    return RunOutcome(env, viol, err)


def viol_dict(v):
    return {"check_id": v.check_id, "msg": v.msg, "step": v.step}


# --------------------------------------------------------------------------
# worker side

_W = {}


def _worker_init(pid):
    _W["prop"] = load_prop(pid)
    gc.disable()


def akey_hash(env):
    return hashlib.blake2b(repr(env.akey).encode(), digest_size=8).digest()


def run_chunk(pid, base_seed, start, n, per_run_timeout, want_digest_every):
    prop = _W.get("prop") or load_prop(pid)
    _W["prop"] = prop
    faulthandler.dump_traceback_later(max(30.0, per_run_timeout * n), exit=True)
    res = {
        "start": start, "n": 0, "nontrivial": 0, "keys": set(), "cells": set(),
        "fired": Counter(), "planned": Counter(), "probes": Counter(),
        "sites": Counter(), "steps": 0, "ops_hist": Counter(), "oracle_evals": 0,
        "samples": [], "digests": [], "violation": None, "errors": [],
    }
    gc_every = getattr(prop, "GC_EVERY", 20)
    marker = None
    root = os.environ.get("SIMTRAITS_ROOT")
    if root and os.path.isdir(root):
        marker = os.path.join(root, "inflight.%d" % os.getpid())
    try:
        for i in range(start, start + n):
            if marker:
                with open(marker, "w") as mf:
                    mf.write("%d" % i)
            seed = run_seed(base_seed, pid, i)
            try:
                trace = prop.gen(seed)
            except Exception:      # noqa: BLE001
                res["errors"].append((i, seed, "gen: " + traceback.format_exc()))
                break
            out = execute_trace(prop, trace)
            env = out.env
            res["n"] += 1
            res["steps"] += env.seq
            res["oracle_evals"] += env.oracle_evals
            res["ops_hist"][min(len(trace.get("ops", ())) // 5 * 5, 60)] += 1
            res["fired"].update(env.fired)
            res["planned"].update(env.planned)
            res["probes"].update(env.probes)
            res["sites"].update(env.site_total)
            res["cells"].update(env.cells)
            if env.nontrivial:
                res["nontrivial"] += 1
                res["keys"].add(akey_hash(env))
            if want_digest_every and (i % want_digest_every == 0):
                res["digests"].append((i, env.digest()))
            if len(res["samples"]) < 1 or (len(res["samples"]) < 2 and env.fired):
                res["samples"].append({
                    "run_index": i, "run_seed": seed,
                    "faults_fired": dict(env.fired),
                    "config": trace.get("config"),
                    "ops": [json.dumps(o, sort_keys=True, separators=(",", ":"))
                            for o in trace.get("ops", ())]})
            if out.error:
                res["errors"].append((i, seed, out.error))
                break
            if out.violation is not None:
                res["violation"] = {"index": i, "seed": seed, "trace": trace,
                                    "v": viol_dict(out.violation),
                                    "digest": env.digest()}
                break
            if (i + 1) % gc_every == 0:
                gc.collect()
    finally:
        faulthandler.cancel_dump_traceback_later()
    if marker:
        with open(marker, "w") as mf:
            mf.write("-")
    gc.collect()
    return res


# --------------------------------------------------------------------------
# shrinking (delta debugging over the op list, then per-op simplification)

def shrink(prop, trace, check_id, max_execs=3000, max_wall=90.0):
    t0 = time.time()
    execs = [0]

    def fails(t):
        if execs[0] >= max_execs or time.time() - t0 > max_wall:
            return False
        execs[0] += 1
        out = execute_trace(prop, t)
        if execs[0] % 25 == 0:
            gc.collect()
        return (out.violation is not None and out.error is None
                and out.violation.check_id == check_id)

    def with_ops(t, ops):
        t2 = dict(t)
        t2["ops"] = ops
        return t2

    cur = trace
    ops = list(cur.get("ops", ()))
    # 1. ddmin on ops
    n = 2
    while len(ops) >= 2:
        chunk = max(1, len(ops) // n)
        reduced = False
        for i in range(0, len(ops), chunk):
            cand = ops[:i] + ops[i + chunk:]
            if cand != ops and fails(with_ops(cur, cand)):
                ops = cand
                n = max(n - 1, 2)
                reduced = True
                break
        if not reduced:
            if chunk == 1:
                break
            n = min(len(ops), n * 2)
    if len(ops) == 1 and fails(with_ops(cur, [])):
        ops = []
    cur = with_ops(cur, ops)
    # 2. per op: drop env events, simplify
    changed = True
    rounds = 0
    while changed and rounds < 4:
        changed = False
        rounds += 1
        for i in range(len(ops)):
            op = ops[i]
            envs = op.get("env") or []
            j = 0
            while j < len(envs):
                op2 = dict(op)
                op2["env"] = envs[:j] + envs[j + 1:]
                if not op2["env"]:
                    del op2["env"]
                cand = ops[:i] + [op2] + ops[i + 1:]
                if fails(with_ops(cur, cand)):
                    ops = cand
                    op = op2
                    envs = op.get("env") or []
                    changed = True
                else:
                    j += 1
            simp = getattr(prop, "simplify_op", None)
            if simp is not None:
                progress = True
                while progress:
                    progress = False
                    for op2 in simp(ops[i]):
                        cand = ops[:i] + [op2] + ops[i + 1:]
                        if fails(with_ops(cur, cand)):
                            ops = cand
                            changed = True
                            progress = True
                            break
        cur = with_ops(cur, ops)
        simp_t = getattr(prop, "simplify_trace", None)
        if simp_t is not None:
            progress = True
            while progress:
                progress = False
                for t2 in simp_t(cur):
                    if fails(t2):
                        cur = t2
                        ops = list(cur.get("ops", ()))
                        changed = True
                        progress = True
                        break
        # single-op deletion pass again
        i = 0
        while i < len(ops):
            cand = ops[:i] + ops[i + 1:]
            if fails(with_ops(cur, cand)):
                ops = cand
                changed = True
            else:
                i += 1
        cur = with_ops(cur, ops)
    return cur, execs[0]


# --------------------------------------------------------------------------
# replay files

def fresh_interpreter(args, hashseed, timeout=300):
    env = dict(os.environ)
    env["PYTHONHASHSEED"] = str(hashseed)
    cmd = [sys.executable, "-c",
           "from simtraits.runner import main; main()"] + args
    p = subprocess.run(cmd, env=env, capture_output=True, text=True,
                       timeout=timeout)
    return p


def write_replay(prop, found, minimised, base_seed, tree):
    out = execute_trace(prop, minimised, record=True)
    v = out.violation
    if v is None:
        # should not happen (shrinker only keeps failing candidates)
        minimised = found["trace"]
        out = execute_trace(prop, minimised, record=True)
        v = out.violation
    rep = {
        "property": prop.ID,
        "check_id": v.check_id if v else found["v"]["check_id"],
        "message": v.msg if v else found["v"]["msg"],
        "step": v.step if v else None,
        "base_seed": base_seed,
        "run_index": found["index"],
        "run_seed": found["seed"],
        "digest": out.env.digest(),
        "tree": tree,
        "original_ops": len(found["trace"].get("ops", ())),
        "generator_depth": core.DEPTH,
        "trace": minimised,
        "event_log_tail": [list(map(_js, e)) for e in out.env.events[-40:]],
    }
    d = os.path.join(OUT, "replays")
    os.makedirs(d, exist_ok=True)
    path = os.path.join(d, "%s-%d.json" % (prop.ID, found["seed"]))
    with open(path, "w") as f:
        json.dump(rep, f, indent=1, sort_keys=True, default=_js)
        f.write("\n")
    return path, rep


def _js(o):
    if isinstance(o, (set, frozenset)):
        return sorted(map(repr, o))
    if isinstance(o, tuple):
        return list(o)
    if isinstance(o, (int, float, str, bool)) or o is None:
        return o
    return repr(o)


def replay_file(prop, path, record=False):
    with open(path) as f:
        rep = json.load(f)
    out = execute_trace(prop, rep["trace"], record=record)
    return rep, out


# --------------------------------------------------------------------------
# known findings

def load_known(pid):
    p = os.path.join(VERIF, "known_findings.json")
    if not os.path.exists(p):
        return []
    with open(p) as f:
        data = json.load(f)
    return [k for k in data.get("findings", []) if k.get("property") == pid]


def report_known(prop, known):
    """Replay each witness; print KNOWN-FINDING lines for those that still
    fail.  Returns the list of findings that are live."""
    live = []
    for k in known:
        wpath = os.path.join(VERIF, k["witness"])
        try:
            rep, out = replay_file(prop, wpath)
        except Exception:      # noqa: BLE001
            print("HARNESS-ERROR known-finding witness %s unreadable:\n%s"
                  % (k["witness"], traceback.format_exc()))
            sys.exit(2)
        if out.error:
            print("HARNESS-ERROR known-finding witness %s: %s" % (k["witness"], out.error))
            sys.exit(2)
        if out.violation is not None and out.violation.check_id in k["check_ids"]:
            print("KNOWN-FINDING: property=%s %s [%s; witness=%s]"
                  % (prop.ID, k["what"], k["id"], k["witness"]))
            live.append(k)
        else:
            print("note: known finding %s of %s no longer reproduces on this tree"
                  % (k["id"], prop.ID))
    return live


# --------------------------------------------------------------------------
# main search

def search(prop, tier, base_seed, budget, workers, tree):
    pid = prop.ID
    t0 = time.time()
    known = load_known(pid)
    live_known = report_known(prop, known)
    agg = {
        "n": 0, "nontrivial": 0, "keys": set(), "cells": set(),
        "fired": Counter(), "planned": Counter(), "probes": Counter(),
        "sites": Counter(), "steps": 0, "ops_hist": Counter(), "oracle_evals": 0,
        "samples": [], "digests": [], "errors": [],
    }
    violation = None
    chunk = getattr(prop, "CHUNK", 100)
    per_run_timeout = getattr(prop, "RUN_TIMEOUT", 5.0)
    digest_every = max(1, getattr(prop, "DIGEST_EVERY", 50))
    ctx = multiprocessing.get_context("fork")
    next_start = 0
    deadline = t0 + budget
    max_runs = int(os.environ.get("VERIF_MAX_RUNS", "0")) or None
    broken = None
    with ProcessPoolExecutor(max_workers=workers, mp_context=ctx,
                             initializer=_worker_init, initargs=(pid,)) as ex:
        pending = set()

        def submit():
            nonlocal next_start
            f = ex.submit(run_chunk, pid, base_seed, next_start, chunk,
                          per_run_timeout, digest_every)
            next_start += chunk
            pending.add(f)

        for _ in range(workers * 2):
            submit()
        stop = False
        while pending:
            done, _ = wait(pending, timeout=per_run_timeout * chunk + 60,
                           return_when=FIRST_COMPLETED)
            if not done:
                broken = "no chunk finished within the timeout"
                break
            for f in done:
                pending.discard(f)
                try:
                    r = f.result()
                except BrokenProcessPool as e:
                    broken = "worker died: %s" % e
                    stop = True
                    continue
                except Exception:      # noqa: BLE001
                    broken = traceback.format_exc()
                    stop = True
                    continue
                agg["n"] += r["n"]
                agg["nontrivial"] += r["nontrivial"]
                agg["keys"] |= r["keys"]
                agg["cells"] |= r["cells"]
                for k in ("fired", "planned", "probes", "sites", "ops_hist"):
                    agg[k].update(r[k])
                agg["steps"] += r["steps"]
                agg["oracle_evals"] += r["oracle_evals"]
                if len(agg["samples"]) < 3:
                    agg["samples"].extend(r["samples"][:3 - len(agg["samples"])])
                if len(agg["digests"]) < 4000:
                    agg["digests"].extend(r["digests"])
                agg["errors"].extend(r["errors"])
                if r["violation"] is not None:
                    if violation is None or r["violation"]["index"] < violation["index"]:
                        violation = r["violation"]
                    stop = True
                if r["errors"]:
                    stop = True
            if broken:
                break
            if time.time() >= deadline or (max_runs and next_start >= max_runs):
                stop = True
            if not stop:
                while len(pending) < workers * 2:
                    submit()
            else:
                for f in list(pending):
                    if f.cancel():
                        pending.discard(f)
        if broken:
            for f in pending:
                f.cancel()
            ex.shutdown(wait=False, cancel_futures=True)
    agg["wall_search"] = time.time() - t0
    return agg, violation, broken, live_known


def died(p):
    """Did a child interpreter die abnormally (signal / sanitizer abort)?"""
    return p.returncode < 0 or p.returncode >= 128 or p.returncode in (1, 2) and (
        "ERROR: AddressSanitizer" in p.stderr or "runtime error:" in p.stderr)


def crash_signature(p):
    tail = (p.stderr or "")[-1500:]
    for line in (p.stderr or "").splitlines():
        if "ERROR: AddressSanitizer" in line or "runtime error:" in line or "Fatal Python error" in line:
            return line.strip()[:300], tail
    if p.returncode < 0:
        return "process killed by signal %d" % -p.returncode, tail
    return "process exited with status %d" % p.returncode, tail


def triage_crash(prop, base_seed):
    """A worker died.  Find the in-flight run that kills a fresh interpreter,
    minimise it with child-process executions, return (found, minimised,
    signature) or None if the death does not reproduce."""
    root = os.environ.get("SIMTRAITS_ROOT")
    cands = set()
    for f in os.listdir(root):
        if f.startswith("inflight."):
            try:
                cands.add(int(open(os.path.join(root, f)).read().strip()))
            except ValueError:
                pass
    for i in sorted(cands):
        p = fresh_interpreter(["--digests", prop.ID, "--seed", str(base_seed),
                               "--indices", str(i)], hashseed=0, timeout=120)
        if not died(p):
            continue
        seed = run_seed(base_seed, prop.ID, i)
        trace = prop.gen(seed)
        sig, tail = crash_signature(p)
        tmp = os.path.join(root, "crash_candidate.json")

        def crashes(t):
            with open(tmp, "w") as f:
                json.dump({"property": prop.ID, "trace": t}, f, default=_js)
            q = fresh_interpreter(["--replay-json", tmp], hashseed=0, timeout=120)
            return died(q)
        ops = list(trace.get("ops", ()))
        execs = 0
        n = 2
        while len(ops) >= 2 and execs < 120:
            chunk = max(1, len(ops) // n)
            reduced = False
            for j in range(0, len(ops), chunk):
                cand = ops[:j] + ops[j + chunk:]
                execs += 1
                if crashes(dict(trace, ops=cand)):
                    ops = cand
                    n = max(n - 1, 2)
                    reduced = True
                    break
            if not reduced:
                if chunk == 1:
                    break
                n = min(len(ops), n * 2)
        minimised = dict(trace, ops=ops)
        found = {"index": i, "seed": seed, "trace": trace,
                 "v": {"check_id": prop.ID + ".crash", "msg": sig, "step": None},
                 "digest": None}
        return found, minimised, sig, tail, execs
    return None


def write_crash_replay(prop, found, minimised, base_seed, tree, sig, tail):
    rep = {"property": prop.ID, "check_id": prop.ID + ".crash",
           "message": "the interpreter died while executing this history: " + sig,
           "step": None, "base_seed": base_seed, "run_index": found["index"],
           "run_seed": found["seed"], "digest": None, "tree": tree,
           "original_ops": len(found["trace"].get("ops", ())), "trace": minimised,
           "stderr_tail": tail}
    d = os.path.join(OUT, "replays")
    os.makedirs(d, exist_ok=True)
    path = os.path.join(d, "%s-%d.json" % (prop.ID, found["seed"]))
    with open(path, "w") as f:
        json.dump(rep, f, indent=1, sort_keys=True, default=_js)
        f.write("\n")
    return path, rep


def determinism_crosscheck(prop, base_seed, digests, count):
    """Re-run a sample of run indices in a fresh interpreter under another
    PYTHONHASHSEED and compare digests."""
    if not digests:
        return 0, None
    digests = sorted(digests)
    step = max(1, len(digests) // count)
    sample = digests[::step][:count]
    idx = [i for i, _ in sample]
    p = fresh_interpreter(["--digests", prop.ID, "--seed", str(base_seed),
                           "--indices", ",".join(map(str, idx))],
                          hashseed=4242)
    if p.returncode != 0:
        return len(idx), "fresh interpreter failed: %s" % (p.stdout + p.stderr)[-2000:]
    got = json.loads(p.stdout.strip().splitlines()[-1])
    for (i, d), d2 in zip(sample, got):
        if d != d2:
            if "!" in d2:
                # the run violates the property under another hash seed only: the
                # library's behaviour depends on PYTHONHASHSEED, which is then part
                # of the replay file
                return len(idx), ("HASHSEED-VIOLATION", i, d2.split("!", 1)[1])
            return len(idx), ("run index %d: digest %s in pool vs %s in fresh "
                              "interpreter (PYTHONHASHSEED=4242)" % (i, d, d2))
    return len(idx), None


def write_evidence(prop, tier, base_seed, agg, violations, wall, extra):
    cov = {
        "evaluations": agg["n"],
        "distinct_nontrivial": len(agg["keys"]),
        "rule": prop.RULE,
        "samples": agg["samples"][:3],
        "nontrivial_runs": agg["nontrivial"],
        "runs_per_hour": int(agg["n"] / max(agg["wall_search"], 1e-9) * 3600),
        "sim_steps_total": agg["steps"],
        "oracle_evaluations": agg["oracle_evals"],
        "ops_per_run_histogram": {str(k): v for k, v in sorted(agg["ops_hist"].items())},
        "faults_planned": dict(agg["planned"]),
        "faults_fired": dict(agg["fired"]),
        "callback_sites_hit": dict(agg["sites"]),
        "probes": dict(agg["probes"]),
        "generator_depth": core.DEPTH,
        "state_coverage": prop.coverage_report(agg["cells"]) if hasattr(prop, "coverage_report") else {"cells": len(agg["cells"])},
        "components": getattr(prop, "COMPONENTS", {
            "real": ["traits (Python modules and ctraits built from the working tree)",
                     "CPython gc/weakref/pickle/copy"],
            "stub": []}),
    }
    counts = getattr(prop, "evidence_counts", None)
    if counts is not None:
        cov.update(counts(agg))
    cov.update(extra)
    ev = {
        "property_id": prop.ID,
        "tier": tier,
        "seed": base_seed,
        "level": prop.LEVEL,
        "coverage": cov,
        "assumptions": list(getattr(prop, "ASSUMPTIONS", [])),
        "wall_s": round(wall, 2),
        "violations": violations,
    }
    d = os.path.join(OUT, "evidence")
    os.makedirs(d, exist_ok=True)
    path = os.path.join(d, "%s.json" % os.environ.get("SIMTRAITS_EVIDENCE_NAME", prop.ID))
    tmp = path + ".tmp"
    with open(tmp, "w") as f:
        json.dump(ev, f, indent=1, sort_keys=True, default=_js)
        f.write("\n")
    os.replace(tmp, path)
    return path


def cmd_check(args):
    t0 = time.time()
    assert_scratch_build()
    prop = load_prop(args.prop)
    tier = args.tier
    if tier == "thorough":
        # deeper generators (core.DEPTH); inherited by the forked workers and handed
        # to the fresh interpreters of the cross-check through the environment
        core.set_depth(1)
    base_seed = args.seed
    budget = args.budget if args.budget else TIER_BUDGET[tier] * getattr(prop, "BUDGET_SCALE", 1.0)
    workers = args.workers
    tree = os.environ.get("SIMTRAITS_TREE", "?")
    print("simtraits: property=%s tier=%s VERIF_SEED=%d budget=%.0fs workers=%d tree=%s"
          % (prop.ID, tier, base_seed, budget, workers, tree))
    sys.stdout.flush()
    agg, violation, broken, live_known = search(prop, tier, base_seed, budget,
                                                workers, tree)
    extra = {"known_findings_printed": [k["id"] for k in live_known]}
    if broken:
        # a dead worker: if a fresh interpreter dies on one of the in-flight runs
        # too, the compiled core crashed under documented API use - a violation
        res = triage_crash(prop, base_seed) if "worker died" in broken else None
        if res is None:
            print("HARNESS-ERROR %s" % broken)
            write_evidence(prop, tier, base_seed, agg, 0, time.time() - t0,
                           dict(extra, harness_error=broken))
            return 2
        found, minimised, sig, tail, execs = res
        path, rep = write_crash_replay(prop, found, minimised, base_seed, tree, sig, tail)
        extra.update({"shrink_executions": execs, "minimised_ops": len(minimised.get("ops", ())),
                      "original_ops": rep["original_ops"], "crash": sig})
        write_evidence(prop, tier, base_seed, agg, 1, time.time() - t0, extra)
        print("crash found: run index %d: %s" % (found["index"], sig))
        print("minimised %d ops -> %d ops in %d child executions; check=%s"
              % (rep["original_ops"], extra["minimised_ops"], execs, rep["check_id"]))
        print("VIOLATION property=%s replay=%s" % (prop.ID, path))
        return 1
    if agg["errors"]:
        i, seed, err = agg["errors"][0]
        print("HARNESS-ERROR run index %d (run seed %d):\n%s" % (i, seed, err))
        write_evidence(prop, tier, base_seed, agg, 0, time.time() - t0,
                       dict(extra, harness_error=str(err)[-2000:]))
        return 2
    if violation is not None:
        v = violation["v"]
        print("violation found: run index %d check=%s: %s"
              % (violation["index"], v["check_id"], v["msg"]))
        sys.stdout.flush()
        minimised, execs = shrink(prop, violation["trace"], v["check_id"])
        path, rep = write_replay(prop, violation, minimised, base_seed, tree)
        # replay in two fresh interpreters
        ok = True
        outs = []
        for hs in (0, 977):
            p = fresh_interpreter(["--replay-json", path], hashseed=hs)
            outs.append((p.returncode, p.stdout.strip().splitlines()[-1:] or [""]))
        ok = (outs[0] == outs[1] and outs[0][0] == 1)
        extra.update({"shrink_executions": execs,
                      "minimised_ops": len(minimised.get("ops", ())),
                      "original_ops": len(violation["trace"].get("ops", ())),
                      "replay_reproduced_in_fresh_interpreters": ok})
        write_evidence(prop, tier, base_seed, agg, 1, time.time() - t0, extra)
        if not ok:
            print("HARNESS-ERROR replay %s did not reproduce identically in fresh "
                  "interpreters: %r" % (path, outs))
            return 2
        print("minimised %d ops -> %d ops in %d executions; check=%s: %s"
              % (extra["original_ops"], extra["minimised_ops"], execs,
                 rep["check_id"], rep["message"]))
        print("VIOLATION property=%s replay=%s" % (prop.ID, path))
        return 1
    # clean: determinism cross-check
    ncheck = 16 if tier == "quick" else max(16, min(400, agg["n"] // 100))
    ncheck = int(os.environ.get("VERIF_DETERMINISM_SAMPLE", ncheck))
    nd, derr = determinism_crosscheck(prop, base_seed, agg["digests"], ncheck)
    extra["determinism_reruns"] = nd
    if isinstance(derr, tuple) and derr[0] == "HASHSEED-VIOLATION":
        _, i, check_id = derr
        seed = run_seed(base_seed, prop.ID, i)
        trace = prop.gen(seed)
        rep = {"property": prop.ID, "check_id": check_id, "hashseed": 4242,
               "message": "violated only under PYTHONHASHSEED=4242 (the library's behaviour "
                          "depends on the hash seed); the replay runs under that seed",
               "base_seed": base_seed, "run_index": i, "run_seed": seed, "tree": tree,
               "trace": trace, "original_ops": len(trace.get("ops", ()))}
        d = os.path.join(OUT, "replays")
        os.makedirs(d, exist_ok=True)
        path = os.path.join(d, "%s-%d.json" % (prop.ID, seed))
        with open(path, "w") as f:
            json.dump(rep, f, indent=1, sort_keys=True, default=_js)
            f.write("\n")
        write_evidence(prop, tier, base_seed, agg, 1, time.time() - t0, extra)
        print("violation found under PYTHONHASHSEED=4242 only: run index %d check=%s"
              % (i, check_id))
        print("VIOLATION property=%s replay=%s" % (prop.ID, path))
        return 1
    if derr:
        print("HARNESS-ERROR nondeterminism: %s" % derr)
        write_evidence(prop, tier, base_seed, agg, 0, time.time() - t0,
                       dict(extra, harness_error=derr))
        return 2
    if agg["n"] == 0 or len(agg["keys"]) < 2:
        print("HARNESS-ERROR no meaningful exploration (runs=%d distinct=%d)"
              % (agg["n"], len(agg["keys"])))
        return 2
    path = write_evidence(prop, tier, base_seed, agg, 0, time.time() - t0, extra)
    print("OK property=%s runs=%d distinct_nontrivial=%d sim_steps=%d faults_fired=%s "
          "determinism_reruns=%d wall=%.1fs evidence=%s"
          % (prop.ID, agg["n"], len(agg["keys"]), agg["steps"],
             dict(agg["fired"]), nd, time.time() - t0, path))
    return 0


def cmd_digests(args):
    prop = load_prop(args.digests)
    out = []
    for i in [int(x) for x in args.indices.split(",") if x]:
        seed = run_seed(args.seed, prop.ID, i)
        trace = prop.gen(seed)
        o = execute_trace(prop, trace)
        d = o.env.digest()
        if o.violation is not None:
            d += "!" + o.violation.check_id          # (a violation is part of the outcome)
        out.append(d)
        gc.collect()
    print(json.dumps(out))
    return 0


def cmd_replay(path, as_json):
    with open(path) as f:
        rep = json.load(f)
    hs = rep.get("hashseed")
    if hs is not None and os.environ.get("PYTHONHASHSEED") != str(hs):
        # the hash seed is part of this replay: re-execute under it
        p = fresh_interpreter(["--replay-json" if as_json else "--replay", path], hashseed=hs)
        sys.stdout.write(p.stdout)
        return p.returncode
    if not as_json and str(rep.get("check_id", "")).endswith(".crash"):
        # executing it here would kill this process: use a child
        p = fresh_interpreter(["--replay-json", path], hashseed=0, timeout=300)
        if died(p):
            sig, tail = crash_signature(p)
            print(tail)
            print("reproduced check=%s: %s" % (rep["check_id"], sig))
            print("VIOLATION property=%s replay=%s" % (rep["property"], path))
            return 1
        print("NOT-REPRODUCED property=%s replay=%s (recorded check=%s)"
              % (rep["property"], path, rep.get("check_id")))
        return 0
    prop = load_prop(rep["property"])
    out = execute_trace(prop, rep["trace"], record=not as_json)
    v = out.violation
    if as_json:
        print(json.dumps({"check_id": v.check_id if v else None,
                          "digest": out.env.digest(), "error": out.error}))
        return 1 if v is not None else (2 if out.error else 0)
    for e in out.env.events[-60:]:
        print("  %5d %-18s %r" % e)
    if out.error:
        print("HARNESS-ERROR replay: %s" % out.error)
        return 2
    if v is None:
        print("NOT-REPRODUCED property=%s replay=%s (recorded check=%s)"
              % (rep["property"], path, rep.get("check_id")))
        return 0
    same = (v.check_id == rep.get("check_id"))
    print("reproduced check=%s step=%s: %s%s" % (
        v.check_id, v.step, v.msg,
        "" if same else "  [recorded check was %s]" % rep.get("check_id")))
    if rep.get("digest") and rep["digest"] != out.env.digest():
        print("note: event-log digest differs from the recorded one "
              "(tree changed since the replay was recorded?)")
    print("VIOLATION property=%s replay=%s" % (rep["property"], path))
    return 1


def cmd_selftest_determinism(args):
    """>= N seeds per property: pool at two worker counts + fresh interpreter
    under another hash seed; all digests must agree."""
    assert_scratch_build()
    prop = load_prop(args.prop)
    n = args.count
    ctx = multiprocessing.get_context("fork")
    results = []
    for workers, chunk in ((args.workers, 50), (max(2, args.workers // 3), 37)):
        digs = {}
        with ProcessPoolExecutor(max_workers=workers, mp_context=ctx,
                                 initializer=_worker_init, initargs=(prop.ID,)) as ex:
            futs = [ex.submit(run_chunk, prop.ID, args.seed, s, min(chunk, n - s), 5.0, 1)
                    for s in range(0, n, chunk)]
            for f in futs:
                r = f.result()
                if r["errors"]:
                    print("HARNESS-ERROR %r" % (r["errors"][0],))
                    return 2
                digs.update(dict(r["digests"]))
        results.append(digs)
    bad = [i for i in results[0] if results[0][i] != results[1].get(i)]
    # fresh interpreters, other hash seed, in slices
    idx = sorted(results[0])
    fresh = {}
    procs = []
    sl = max(1, len(idx) // args.workers + 1)
    for k in range(0, len(idx), sl):
        part = idx[k:k + sl]
        env = dict(os.environ)
        env["PYTHONHASHSEED"] = "31337"
        cmd = [sys.executable, "-c", "from simtraits.runner import main; main()",
               "--digests", prop.ID, "--seed", str(args.seed),
               "--indices", ",".join(map(str, part))]
        procs.append((part, subprocess.Popen(cmd, env=env, stdout=subprocess.PIPE,
                                             stderr=subprocess.PIPE, text=True)))
    for part, p in procs:
        so, se = p.communicate()
        if p.returncode != 0:
            print("HARNESS-ERROR fresh interpreter: %s" % (so + se)[-3000:])
            return 2
        fresh.update(zip(part, json.loads(so.strip().splitlines()[-1])))
    bad2 = [i for i in idx if results[0][i] != fresh.get(i)]
    print("determinism selftest %s: %d seeds; pool(%d) vs pool(%d) mismatches=%d; "
          "pool vs fresh interpreter (PYTHONHASHSEED=31337) mismatches=%d"
          % (prop.ID, len(idx), args.workers, max(2, args.workers // 3), len(bad), len(bad2)))
    if bad or bad2:
        print("HARNESS-ERROR nondeterminism at run indices %s" % sorted(set(bad + bad2))[:20])
        return 2
    return 0


def main(argv=None):
    ap = argparse.ArgumentParser()
    ap.add_argument("prop", nargs="?")
    ap.add_argument("--tier", default=os.environ.get("VERIF_TIER", "quick"))
    ap.add_argument("--seed", type=int, default=int(os.environ.get("VERIF_SEED", "0")))
    ap.add_argument("--budget", type=float,
                    default=float(os.environ.get("VERIF_BUDGET_S", "0")))
    ap.add_argument("--workers", type=int,
                    default=int(os.environ.get("VERIF_WORKERS", str(min(16, os.cpu_count() or 4)))))
    ap.add_argument("--replay")
    ap.add_argument("--replay-json")
    ap.add_argument("--digests")
    ap.add_argument("--indices", default="")
    ap.add_argument("--selftest")
    ap.add_argument("--count", type=int, default=2000)
    args = ap.parse_args(argv)
    if args.tier not in TIER_BUDGET:
        args.tier = "quick"
    try:
        if args.digests:
            rc = cmd_digests(args)
        elif args.replay_json:
            rc = cmd_replay(args.replay_json, True)
        elif args.replay:
            rc = cmd_replay(args.replay, False)
        elif args.selftest == "determinism":
            rc = cmd_selftest_determinism(args)
        else:
            rc = cmd_check(args)
    except HarnessError as e:
        print("HARNESS-ERROR %s" % e)
        rc = 2
    sys.stdout.flush()
    sys.exit(rc)
