"""Core of the simulator: seed streams, the environment (callback points, event
log, fault plan), violations.

One integer decides everything: every PRNG used anywhere is ``stream(seed,
name)``; nothing in logging, oracles or shrinking draws from a PRNG or reads a
clock.
"""
import gc
import hashlib
import os
import random
from collections import Counter


# --------------------------------------------------------------------------
# seeds

def mix(*parts):
    """Deterministic 63-bit integer from arbitrary printable parts."""
    h = hashlib.sha256("|".join(str(p) for p in parts).encode()).digest()
    return int.from_bytes(h[:8], "big") >> 1


def stream(seed, name):
    return random.Random(mix(seed, name))


def run_seed(base_seed, prop, index):
    return mix("run", base_seed, prop, index)


# Search depth: 0 = quick tier sizes; 1 = thorough tier (the generators then also
# draw from larger pools, longer histories, more handlers).  Part of what a run
# index means, therefore handed to every child interpreter through the
# environment (SIMTRAITS_DEPTH); replay files carry the whole trace and do not
# depend on it.
DEPTH = int(os.environ.get("SIMTRAITS_DEPTH", "0") or 0)


def set_depth(d):
    global DEPTH
    DEPTH = int(d)
    os.environ["SIMTRAITS_DEPTH"] = str(DEPTH)


def deep(r, quick, extra):
    """r.choice over the quick-tier values, plus the extra ones at depth 1."""
    return r.choice(list(quick) + (list(extra) if DEPTH else []))


# --------------------------------------------------------------------------
# outcomes

class Violation(Exception):
    """The property does not hold on this run (oracle failure)."""

    def __init__(self, check_id, msg, step=None, data=None):
        super().__init__("%s: %s" % (check_id, msg))
        self.check_id = check_id
        self.msg = msg
        self.step = step
        self.data = data


class HarnessError(Exception):
    """The machinery itself failed; never reported as a VIOLATION."""


class StepCap(Exception):
    """Per-run cap on callback points exceeded."""


class InjectedFault(Exception):
    """Marker mixin for exceptions raised by the fault injector."""


_EXC_CACHE = {}


def exc_class(name):
    """Exception classes the injector raises: subclasses of the real class
    that also carry the InjectedFault marker so that oracles can recognise
    'the injected one'."""
    c = _EXC_CACHE.get(name)
    if c is None:
        if name == "TraitError":
            from traits.trait_errors import TraitError as base
        else:
            base = {"ValueError": ValueError, "AttributeError": AttributeError,
                    "RuntimeError": RuntimeError, "TypeError": TypeError,
                    "KeyError": KeyError, "ZeroDivisionError": ZeroDivisionError,
                    }[name]
        c = type("Injected" + name, (base, InjectedFault), {})
        _EXC_CACHE[name] = c
    return c


FAULT_EXCS = ("TraitError", "ValueError", "AttributeError", "RuntimeError")


# --------------------------------------------------------------------------
# the environment

class Env:
    """Event log + cooperative fault/yield points.

    Every user callback of the class zoo starts with ``env.point(site)``.  The
    current op's planned environment events are looked up by (site, ordinal
    within the op).
    """

    def __init__(self, record=False, step_cap=20000):
        self.seq = 0
        self._h = hashlib.sha256()
        self.record = record
        self.events = []
        self.op_index = -1
        self.plan = {}
        self.counts = {}
        self.fired = Counter()
        self.planned = Counter()
        self.probes = Counter()
        self.cells = set()
        self.akey = []
        self.actions = {}       # kind -> callable(event) installed by executor
        self.step_cap = step_cap
        self.depth = 0
        self.nontrivial = False
        self.oracle_evals = 0
        self.site_total = Counter()

    # -- logging -------------------------------------------------------------
    def log(self, site, payload=None):
        self.seq += 1
        if self.seq > self.step_cap:
            raise StepCap("more than %d events in one run" % self.step_cap)
        line = "%d|%s|%r\n" % (self.seq, site, payload)
        self._h.update(line.encode("utf-8", "backslashreplace"))
        if self.record:
            self.events.append((self.seq, site, payload))

    def digest(self):
        return self._h.hexdigest()[:24]

    # -- per-op plan -----------------------------------------------------------
    def begin_op(self, i, op):
        self.op_index = i
        self.counts = {}
        plan = {}
        for ev in op.get("env", ()):
            plan[(ev["at"], ev.get("nth", 1))] = ev
            self.planned[ev["do"]] += 1
        self.plan = plan
        self.log("op", (i, op.get("k")))

    def end_op(self):
        self.plan = {}

    def count(self, site):
        return self.counts.get(site, 0)

    # -- the cooperative point ---------------------------------------------------
    def point(self, site, payload=None):
        n = self.counts.get(site, 0) + 1
        self.counts[site] = n
        self.site_total[site] += 1
        self.log(site, payload)
        if not self.plan:
            return
        ev = self.plan.get((site, n))
        if ev is None:
            ev = self.plan.get((site, 0))     # nth == 0: every invocation
            if ev is None:
                return
        self.fire(ev, site)

    def fire(self, ev, site):
        do = ev["do"]
        self.fired[do] += 1
        self.log("env", (do, site))
        if do == "raise":
            if ev.get("args") == "nonstr":
                # an exception whose first argument is no string (e.g. a wrapped error)
                raise exc_class(ev["exc"])(17, "injected at %s" % site)
            raise exc_class(ev["exc"])("injected at %s" % site)
        if do == "gc":
            gc.collect()
            return
        act = self.actions.get(do)
        if act is None:
            raise HarnessError("no action installed for env event %r" % do)
        self.depth += 1
        try:
            act(ev)
        finally:
            self.depth -= 1

    # -- coverage ------------------------------------------------------------------
    def cover(self, *cell):
        self.cells.add(cell)

    def probe(self, name, n=1):
        self.probes[name] += n

    def token(self, *t):
        self.akey.append(t)


def sut(f, *a, **k):
    """Run a call into the system under test; return (result, exception)."""
    try:
        return f(*a, **k), None
    except RecursionError:
        raise
    except Exception as e:      # noqa: BLE001 - classification is the caller's job
        # The harness may keep the exception until the next op: it must not keep
        # objects of the system under test alive through it (frames of the
        # traceback; TraitError.object is the HasTraits instance itself).
        e.__traceback__ = None
        if getattr(e, "object", None) is not None:
            try:
                e.object = None
            except Exception:      # noqa: BLE001
                pass
        c = e.__context__
        if c is not None:
            c.__traceback__ = None
        return None, e


def exc_name(e):
    if e is None:
        return None
    for c in type(e).__mro__:
        if c.__module__ in ("builtins", "traits.trait_errors",
                            "traits.observation.exceptions",
                            "traits.observation._exceptions",
                            "traits.adaptation.adaptation_error"):
            return c.__name__
    return type(e).__name__
