"""Static class zoo for C20 (sync_trait)."""
from traits.api import HasTraits, Int, Str, List, TraitType

from .values import CUR


class Checked(TraitType):
    """Int-like trait whose validator is a callback point (fault site)."""
    default_value = 0
    info_text = "a checked int"

    def validate(self, object, name, value):
        env = CUR["env"]
        if env is not None:
            env.point("validator:c", getattr(object, "uid", None))
        if type(value) is int:
            return value
        self.error(object, name, value)


class S(HasTraits):
    uid = Int()
    n = Int()
    m = Int()
    s = Str()
    t = Str()
    l = List(Int)
    k = List(Int)
    ld = List(Int)       # its default comes from a method (another default kind)
    g_items = List(Int)  # a value trait whose NAME looks like an items companion
    c = Checked()
    c2 = Checked()

    def _ld_default(self):
        return []

    def __repr__(self):
        return "S%d" % self.uid


GROUPS = {"n": "int", "m": "int", "s": "str", "t": "str", "l": "list", "k": "list", "ld": "list",
          "g_items": "list",
          "c": "chk", "c2": "chk"}
