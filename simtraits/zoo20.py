"""Static class zoo for C20 (sync_trait)."""
from traits.api import HasTraits, Int, Str, List


class S(HasTraits):
    uid = Int()
    n = Int()
    m = Int()
    s = Str()
    t = Str()
    l = List(Int)
    k = List(Int)

    def __repr__(self):
        return "S%d" % self.uid


GROUPS = {"n": "int", "m": "int", "s": "str", "t": "str", "l": "list", "k": "list"}
