"""A second container next to the one under test (C05-C07): built the same way,
from the same ``notifiers=`` list object, or as a copy of it.  What happens to
one must never reach the listeners of the other nor change its contents.

Only removal operations are applied to the sibling: they need no validation,
so the callback points of the history under test keep their ordinals.
"""
import copy
import pickle

from .core import Violation, sut


class Sibling:
    def __init__(self, pid, mode, main, build, env):
        """``build(notifiers)`` makes a fresh container like the main one
        (``notifiers`` is None or the list to hand to the constructor)."""
        self.pid = pid
        self.mode = mode
        self.env = env
        self.rec = []
        if mode == "copy":
            self.obj, e = sut(copy.copy, main)
        elif mode == "deepcopy":
            self.obj, e = sut(copy.deepcopy, main)
        elif mode == "pickle":
            self.obj, e = sut(lambda: pickle.loads(pickle.dumps(main)))
        else:
            self.obj, e = sut(build, None)
        if e is not None:
            raise Violation(pid + ".sibling", "building the sibling (%s) raised %r" % (mode, e), 0)

        def notifier(*a):
            self.rec.append(1)
        self.obj.notifiers.append(notifier)
        self.snap = self.contents()
        env.probe("sibling-" + mode)

    def contents(self):
        o = self.obj
        return dict(o) if isinstance(o, dict) else (set(o) if isinstance(o, (set, frozenset))
                                                    else list(o))

    def after_main_op(self, what, step):
        """The main container was operated on: the sibling heard nothing and holds
        what it held."""
        self.env.oracle_evals += 1
        if self.rec:
            raise Violation(self.pid + ".sibling-notified",
                            "%s on the container reached a listener of a DIFFERENT container "
                            "(%s sibling)" % (what, self.mode), step)
        if self.contents() != self.snap:
            raise Violation(self.pid + ".sibling-changed",
                            "%s on the container changed the contents of a different container "
                            "(%s sibling): %r -> %r" % (what, self.mode, self.snap,
                                                        self.contents()), step)

    def poke(self, main_recs, step):
        """Remove something from the sibling: the main container's listeners hear
        nothing; the sibling's own listener hears it once."""
        o = self.obj
        if len(o) == 0:
            return
        del self.rec[:]
        if isinstance(o, dict):
            _, e = sut(o.popitem)
        else:
            _, e = sut(o.pop)
        if e is not None:
            raise Violation(self.pid + ".sibling", "removing an item from the sibling raised %r"
                            % (e,), step)
        self.env.oracle_evals += 1
        if len(self.rec) != 1:
            raise Violation(self.pid + ".sibling-own-listener",
                            "a removal from the %s sibling was announced %d times to its own "
                            "listener" % (self.mode, len(self.rec)), step)
        for kind, rec in main_recs:
            if rec:
                raise Violation(self.pid + ".sibling-notified",
                                "a removal from a DIFFERENT container (%s sibling) reached a %s "
                                "listener of the container under test" % (self.mode, kind), step)
        del self.rec[:]
        self.snap = self.contents()


class Unhookers:
    """Extra raw notifiers on the container under test, one of which - the first
    time it is called at or after a chosen operation - removes OTHER notifiers
    (registered before and/or after it, possibly itself) from the container's
    notifier list, in the middle of the notification.  Every notifier that is
    hooked when the operation starts and is not removed during it hears the
    change exactly once; a removed one at most once; nobody twice; a notifier
    that was removed earlier never again."""

    def __init__(self, pid, cont, spec, env):
        self.pid, self.cont, self.spec, self.env = pid, cont, spec, env
        n = spec["n"]
        self.calls = [0] * n
        self.hooked = [True] * n
        self.fired = False
        self.armed = False
        self.removed_now = set()
        self.fns = []
        self.dead = False
        for j in range(n):
            self.fns.append(self._mk(j))
        for f in self.fns:
            cont.notifiers.append(f)

    def _mk(self, j):
        def nf(*a):
            self.calls[j] += 1
            if self.armed and not self.fired and j == self.spec["who"]:
                self.fired = True
                self.env.probe("notifier-unhooked-others-during-notification")
                for v in self.spec["victims"]:
                    if self.hooked[v] and self.fns[v] in self.cont.notifiers:
                        self.cont.notifiers.remove(self.fns[v])
                        self.hooked[v] = False
                        self.removed_now.add(v)
        return nf

    def begin_op(self, i):
        self.calls = [0] * len(self.calls)
        self.armed = i >= self.spec["at"]
        self.removed_now = set()
        self.hooked0 = list(self.hooked)

    def check(self, changed, what, step):
        if self.dead:
            return
        self.env.oracle_evals += 1
        for j, c in enumerate(self.calls):
            if c > 1:
                raise Violation(self.pid + ".event-count",
                                "%s: notifier #%d was called %d times for one change (another "
                                "notifier unhooked %s during the notification)"
                                % (what, j, c, sorted(self.removed_now)), step)
            if not self.hooked0[j]:
                if c:
                    raise Violation(self.pid + ".event-count",
                                    "%s: notifier #%d was called although it had been removed "
                                    "from the notifier list earlier" % (what, j), step)
            elif j not in self.removed_now and changed and c != 1:
                raise Violation(self.pid + ".event-count",
                                "%s: notifier #%d (hooked, not removed) got %d notifications for "
                                "a change; notifier #%d unhooked %s during this notification"
                                % (what, j, c, self.spec["who"], sorted(self.removed_now)), step)
