"""Value specs and harness validators shared by the container checks.

Value specs are JSON: {"t":"int","v":n} | {"t":"str","v":"123"} (coercible
spelling of an int when the validator coerces) | {"t":"bad"} (None: rejected by
every validating validator).
"""
from .core import exc_class

CUR = {"env": None}      # the environment of the run being executed


class ModelTraitError(Exception):
    pass


class Spell:
    """A coercible spelling of the int ``n`` with a hash that does not depend
    on PYTHONHASHSEED (strings inside sets would make iteration order, and so
    the event log, depend on the hash seed)."""
    __slots__ = ("n",)

    def __init__(self, n):
        self.n = n

    def __eq__(self, other):
        return type(other) is Spell and other.n == self.n

    def __ne__(self, other):
        return not self.__eq__(other)

    def __hash__(self):
        return self.n * 7919 + 13

    def __repr__(self):
        return "Spell(%d)" % self.n

    def __reduce__(self):
        return (Spell, (self.n,))


OBJECTS = {}     # per-run pool for {"t": "obj", "i": n} specs (set by the executor)


def raw(spec):
    t = spec["t"]
    if t in ("int", "str", "float"):
        return spec["v"]
    if t == "bad":
        if spec.get("how") == "undef":
            from traits.api import Undefined
            return Undefined      # the "no value" singleton is no valid element either
        return None
    if t == "list":
        return [raw(s) for s in spec["vs"]]
    if t == "spell":
        return Spell(spec["v"])
    if t == "obj":
        return OBJECTS[spec["i"]]
    raise AssertionError(spec)


def mval(spec, vkind):
    """The model's validator.  ``vkind`` is 'none', 'coerce', 'point' or a
    callable implementing the model of an inner trait (spec -> value, raising
    ModelTraitError)."""
    if callable(vkind):
        return vkind(spec)
    if vkind == "once":
        # a validator that is not idempotent: what is stored must never be
        # validated a second time
        return mval(spec, "coerce") + ONCE
    t = spec["t"]
    if t == "int":
        return spec["v"]
    if vkind == "none":
        return raw(spec)
    if t == "str":
        return int(spec["v"])
    if t == "spell":
        return spec["v"]
    if t == "bad":
        raise ModelTraitError()
    raise AssertionError(spec)


ONCE = 100000


class Coerce:
    """Picklable harness validator: ints pass, digit strings become ints,
    everything else is a TraitError.  With a site name it is a callback point
    of the simulator."""

    def __init__(self, site=None, bump=0):
        self.site = site
        self.bump = bump

    def __call__(self, item):
        return self._check(item) + self.bump

    def _check(self, item):
        if self.site is not None:
            env = CUR["env"]
            if env is not None:
                env.point(self.site, item if isinstance(item, (int, str)) else repr(item))
        if type(item) is int:
            return item
        if type(item) is str and item.isdigit():
            return int(item)
        if type(item) is Spell:
            return item.n
        from traits.trait_errors import TraitError
        raise TraitError("bad item %r" % (item,))

    def __eq__(self, other):
        return type(other) is Coerce and other.site == self.site and other.bump == self.bump

    def __hash__(self):
        return 77 if self.site is None else 78


def make_validator(vkind, site):
    if vkind == "none":
        return None
    if vkind == "once":
        return Coerce(None, ONCE)
    return Coerce(site if vkind == "point" else None)


class RaisingIter:
    def __init__(self, items, raise_at, exc):
        self.items = items
        self.raise_at = raise_at
        self.exc = exc

    def __iter__(self):
        for i, x in enumerate(self.items):
            if i == self.raise_at:
                raise exc_class(self.exc)("iterable failed at %d" % i)
            yield x
        if self.raise_at is not None and self.raise_at >= len(self.items):
            raise exc_class(self.exc)("iterable failed at end")
