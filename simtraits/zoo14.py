"""Static class zoo for C14 (pickling / deep copy / cloning)."""
from traits.api import (HasTraits, Any, Int, Str, ReadOnly, List, Dict, Set, Instance, Property,
                        PrototypedFrom, cached_property, observe)

from .zoo import NodeBase


class Rec(NodeBase):
    # (declared BEFORE the trait that holds its prototype: copying must still set
    # the prototype first)
    pv = PrototypedFrom("child", prefix="value")
    uid = Int()
    value = Int()
    ro = ReadOnly
    scratch = Int(7, transient=True)
    tags = List(Int, maxlen=5)
    stags = List(Int, copy="shallow")
    grid = List(List(Int, maxlen=3))
    table = Dict(Str, List(Int, maxlen=3))
    group = Set(Int)
    child = Instance(NodeBase)
    friend = Instance(NodeBase, copy="ref")
    children = List(Instance(NodeBase))
    members = Set(Instance(NodeBase))      # hashable but mutable elements
    log = List(transient=True)
    # an untyped attribute holding a list: no copy metadata of its own (copied in the
    # mode that the caller of clone_traits asks for)
    blob = Any()
    # explicitly marked as NOT transient
    keep = Int(transient=False)
    total = Property(Int, observe="children.items.value")
    # a settable property: its value lives under another name in the dictionary
    sp = Property(Int)

    def _get_sp(self):
        return self.__dict__.get("_spv", 0)

    def _set_sp(self, value):
        self.__dict__["_spv"] = value

    @cached_property
    def _get_total(self):
        return sum(c.value for c in self.children)

    # a cached property with two dependencies, read by a class-level handler: while
    # an object is restored (unpickled, cloned) that handler runs between the
    # assignment of the two dependencies
    vtotal = Property(Int, observe="value, children.items.value")

    @cached_property
    def _get_vtotal(self):
        return self.value + sum(c.value for c in self.children)

    def _children_changed(self, new):
        self.vtotal

    def _value_changed(self, new):
        self.vtotal

    @observe("tags.items, stags.items, grid.items.items, table.items.items, group.items, "
             "children.items.value, value")
    def _obs(self, event):
        self.log.append(type(event).__name__)

    # hooked up only after the object has been initialised - also when it is a copy
    @observe("value", post_init=True)
    def _obs_post(self, event):
        self.log.append("post_init_observer")

    def _tags_items_changed(self, event):
        self.log.append("legacy_items")

    def _group_items_changed(self, event):
        self.log.append("legacy_items")

    def __repr__(self):
        return "R%d" % self.uid


class Plain(HasTraits):
    pass


class PostOnly(HasTraits):
    """A class whose only declared handler is an observer with post_init=True (no
    legacy listeners, no delegation, no observed properties)."""
    v = Int()
    log = List(transient=True)

    @observe("v", post_init=True)
    def _obs_post(self, event):
        self.log.append("post_init_observer")


import traits.api as _t


class Defs(HasTraits):
    """Source of trait definition objects (CTraits) for the round-trip check,
    including a validated Property whose getter/setter are importable."""
    Int = _t.Int(3)
    Str = _t.Str("s")
    Float = _t.Float()
    Range = _t.Range(0, 10, 2)
    Enum = _t.Enum("a", "b", 5)
    ListInt = _t.List(_t.Int, maxlen=3)
    Tuple = _t.Tuple(_t.Int, _t.Str)
    Either = _t.Either(_t.Int, _t.Str)
    Map = _t.Map({"yes": 1, "no": 0})
    PropInt = _t.Property(_t.Int)
    Instance = _t.Instance(NodeBase)
    DictStrInt = _t.Dict(_t.Str, _t.Int)
    CInt = _t.CInt()
    Bool = _t.Bool()
    # one definition per kind of compiled validator / default kind / accessor pair
    Complex = _t.Complex()
    CFloat = _t.CFloat()
    CComplex = _t.CComplex()
    RangeF = _t.Range(0.0, 1.0)
    RangeFE = _t.Range(0.0, 1.0, exclude_low=True)
    RangeLow = _t.Range(low=0)
    Callable = _t.Callable()
    Any = _t.Any()
    SetInt = _t.Set(_t.Int)
    Union = _t.Union(_t.Int, None)
    EitherNone = _t.Either(None, _t.Float)
    PrefixList = _t.PrefixList(["alpha", "beta"])
    PrefixMap = _t.PrefixMap({"yes": 1, "no": 0})
    Constant = _t.Constant(4)
    Event = _t.Event()
    Bytes = _t.Bytes()
    String = _t.String(maxlen=3)
    Type = _t.Type(NodeBase)
    TupleAny = _t.Tuple()
    ValidatedTuple = _t.ValidatedTuple(_t.Int, _t.Int)
    WeakRef = _t.WeakRef(NodeBase)
    ListComplex = _t.List(_t.Complex)
    TupleComplex = _t.Tuple(_t.Complex, _t.Int)
    BaseInt = _t.BaseInt()

    def _get_PropInt(self):
        return self.__dict__.get("_p", 0)

    def _set_PropInt(self, value):
        self.__dict__["_p"] = value
