"""Static class zoo for C11 (delegation and prototyping)."""
from traits.api import HasTraits, Int, Str, Instance, DelegatesTo, PrototypedFrom


class Target(HasTraits):
    uid = Int()
    x = Int(1)
    y = Str("y")
    p_a = Int(2)
    p_pa = Int(3)
    q_b = Int(4)
    q_pb = Int(5)


class EqTarget(Target):
    """A "value object" delegate: all of them compare equal, so that the delegate
    can be swapped for a distinct object that equals the old one."""

    def __eq__(self, other):
        return isinstance(other, EqTarget)

    def __ne__(self, other):
        return not self.__eq__(other)

    def __hash__(self):
        return 11


class Mid(HasTraits):
    uid = Int()
    inner = Instance(Target)
    x = DelegatesTo("inner")
    my = PrototypedFrom("inner", prefix="y")


class Child(HasTraits):
    __prefix__ = "q_"
    parent = Instance(Target)
    mid = Instance(Mid)
    # DelegatesTo in the four prefix styles
    x = DelegatesTo("parent")
    yy = DelegatesTo("parent", prefix="y")
    a = DelegatesTo("parent", prefix="p_*")
    b = DelegatesTo("parent", prefix="*")
    # PrototypedFrom in the four prefix styles
    y = PrototypedFrom("parent")
    px = PrototypedFrom("parent", prefix="x")
    pa = PrototypedFrom("parent", prefix="p_*")
    pb = PrototypedFrom("parent", prefix="*")
    # two-level chains
    cx = DelegatesTo("mid", prefix="x")
    cmy = PrototypedFrom("mid", prefix="my")
    # declared without a forwarding listener: mirrors, but announces nothing
    lq = PrototypedFrom("parent", prefix="x", listenable=False)


class ChildSub(Child):
    """Everything - the deferring traits and __prefix__ - is inherited."""


class PrefixMixin(HasTraits):
    __prefix__ = "q_"


class ChildMixed(PrefixMixin):
    """__prefix__ comes from a base class, the deferring traits are its own."""
    parent = Instance(Target)
    mid = Instance(Mid)
    x = DelegatesTo("parent")
    yy = DelegatesTo("parent", prefix="y")
    a = DelegatesTo("parent", prefix="p_*")
    b = DelegatesTo("parent", prefix="*")
    y = PrototypedFrom("parent")
    px = PrototypedFrom("parent", prefix="x")
    pa = PrototypedFrom("parent", prefix="p_*")
    pb = PrototypedFrom("parent", prefix="*")
    cx = DelegatesTo("mid", prefix="x")
    cmy = PrototypedFrom("mid", prefix="my")
    # declared without a forwarding listener: mirrors, but announces nothing
    lq = PrototypedFrom("parent", prefix="x", listenable=False)


DEFAULTS = {"parent": None, "mid": None}


class ChildDflt(Child):
    """The delegate links are never assigned: their defaults come from methods
    that return objects which exist already (shared, not made per child)."""

    def _parent_default(self):
        return DEFAULTS["parent"]

    def _mid_default(self):
        return DEFAULTS["mid"]


CHILD_CLASSES = {"Child": Child, "ChildSub": ChildSub, "ChildMixed": ChildMixed,
                 "ChildDflt": ChildDflt}


class ProtoChild(HasTraits):
    """A child whose deferring attributes are all prototyped: when every one
    of them holds a local value the object has no forwarding listener left."""
    parent = Instance(Target)
    mid = Instance(Mid)
    y = PrototypedFrom("parent")
    px = PrototypedFrom("parent", prefix="x")


PROTO_NAMES = ["px", "y"]


# deferring attribute -> (kind, delegate attr, target attr)
DEFER = {
    "x": ("delegate", "parent", "x"),
    "yy": ("delegate", "parent", "y"),
    "a": ("delegate", "parent", "p_a"),
    "b": ("delegate", "parent", "q_b"),
    "y": ("proto", "parent", "y"),
    "px": ("proto", "parent", "x"),
    "pa": ("proto", "parent", "p_pa"),
    "pb": ("proto", "parent", "q_pb"),
    "cx": ("delegate", "mid", "x"),
    "cmy": ("proto", "mid", "my"),
    "lq": ("proto", "parent", "x"),
}
STR_ATTRS = {"y", "my"}
