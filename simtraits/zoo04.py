"""Static class zoo for the container-trait check (C04).

Classes are module-level (picklable by reference).  They carry no static
handlers and no class-level mutable state: recorders are attached per instance,
so runs are independent.
"""
import sys

from traits.api import (HasTraits, Int, CInt, String, Str, List, Dict, Set,
                        Instance, TraitType, Union)

from .values import CUR


class Item(HasTraits):
    uid = Int()

    def __eq__(self, other):
        return isinstance(other, Item) and other.uid == self.uid

    def __ne__(self, other):
        return not self.__eq__(other)

    def __hash__(self):
        return 1000003 * self.uid + 29

    def __repr__(self):
        return "Item#%d" % self.uid


class Checked(TraitType):
    """Custom trait type whose validate is a callback point of the simulator:
    accepts exactly ints."""
    default_value = 0
    info_text = "a checked int"

    def validate(self, object, name, value):
        env = CUR["env"]
        if env is not None:
            env.point("checked", value if isinstance(value, (int, str)) else None)
        if type(value) is int:
            return value
        self.error(object, name, value)


class Item2(HasTraits):
    uid = Int()

    def __repr__(self):
        return "Item2#%d" % self.uid


def make_fholder():
    """A class built per run (resolving a forward reference patches the trait
    definitions of the class): a Dict whose value trait names its class by a
    string, resolved at the first store, and a bounded List whose implicit
    default ([]) is shorter than minlen."""
    class FHolder(HasTraits):
        dn = Dict(Instance(Item), Instance("Item2"))
        lb = List(Int, minlen=2, maxlen=4)
    return FHolder


class UHolder(HasTraits):
    """Containers inside a compound trait: the class has no ``<name>_items``
    companion trait for them (the first mutation adds one to the instance), and
    no recorder is ever attached to this object, so it starts without any
    instance trait."""
    ul = Union(List(Int), None)
    ud = Union(Dict(Str, Int), None)
    us = Union(Set(Int), None)


BOUNDS = [(0, 4), (1, 3), (2, 6), (0, sys.maxsize)]

HOLDERS = {}


def _make(minlen, maxlen, idx):
    name = "Holder%d" % idx

    class Holder(HasTraits):
        li = List(Int, list(range(minlen)), minlen=minlen, maxlen=maxlen)
        lc = List(CInt)
        ls = List(String(maxlen=3))
        ll = List(List(Int, maxlen=3), maxlen=4)
        # a NESTED declared default (every instance gets its own inner lists)
        lld = List(List(Int, maxlen=3), [[1, 2], [3]], maxlen=4)
        lk = List(Checked)
        ln = List(Instance(Item))
        di = Dict(Str, Int)
        dl = Dict(CInt, List(Int, maxlen=3))
        si = Set(Int)
        sc = Set(CInt)

        if idx % 2:
            # an owner that is "empty" in the eyes of bool(): still an owner
            def __len__(self):
                return 0
    Holder.__name__ = name
    Holder.__qualname__ = name
    Holder.__module__ = __name__
    globals()[name] = Holder
    HOLDERS[idx] = Holder
    return Holder


for _i, (_a, _b) in enumerate(BOUNDS):
    _make(_a, _b, _i)
