"""C11 - deferred traits mirror their target: delegation and prototyping.

World: one Child object deferring ten attributes (DelegatesTo / PrototypedFrom
in all four prefix styles, two-level chains through a Mid object) to 2-3
candidate Target objects.  Ops: assign via the deferring object, assign on any
candidate, swap the delegate (and the chain's links), delete the local value,
invalid assignments; recording handlers (on_trait_change and observe) on the
deferring attributes.  Environment: gc / drop of a former delegate, pickle
restart of the whole world.
"""
import gc
import pickle

from ..core import Violation, HarnessError, stream, sut
from ..core import deep

ID = "C11"
UNSET = "<unset>"


class Prop:
    ID = ID
    LEVEL = "exploration"
    CHUNK = 60
    GC_EVERY = 10
    RUN_TIMEOUT = 10.0
    DIGEST_EVERY = 20
    RULE = ("seeded random histories (5-40 ops) on a Child deferring ten attributes (DelegatesTo "
            "and PrototypedFrom in the styles same-name, explicit name, 'prefix*', '*' with "
            "__prefix__, and two-level chains; the deferring traits and __prefix__ declared in the class itself, "
            "all inherited, or __prefix__ inherited from a mixin) to 2-3 candidate delegates: assignments through "
            "the deferring object (valid and invalid), assignments on any candidate, swapping "
            "the delegate and the chain links, deleting local values, gc, drop of former "
            "delegates, pickle restart; handlers on a generated subset of deferring attributes; "
            "non-trivial = at least one target change on the current delegate was checked for "
            "notification, and one on a non-current candidate or after a broken link for "
            "silence; distinct = distinct abstract traces")
    ASSUMPTIONS = ["the delegate link holds an object whenever a deferring attribute is read "
                   "(reading through None is an error, not a mirror); it may pass through None "
                   "inside a swap",
                   "swapping the delegate itself is not required to notify (the statement speaks "
                   "of changes of the target attribute)"]

    def gen(self, seed):
        from ..zoo11 import DEFER
        c = stream(seed, "config")
        r = stream(seed, "ops")
        proto_only = c.random() < 0.25
        from ..zoo11 import PROTO_NAMES
        names = sorted(PROTO_NAMES) if proto_only else sorted(DEFER)
        ncand = c.randint(2, 3)
        nmid = 2
        listen = {n: c.choice(["none", "otc", "obs", "both"]) for n in names}
        if "lq" in listen:
            listen["lq"] = "none"      # (listenable=False: nothing is forwarded, by declaration)
        nops = deep(c, [5, 10, 16, 24, 40], [60, 90])
        ctr = [100]
        ops = []
        for _ in range(nops):
            ctr[0] += 1
            x = r.random()
            if x < 0.28:
                op = {"k": "set_via", "name": r.choice(names), "v": ctr[0], "bad": r.random() < 0.12}
                if r.random() < 0.15:
                    # the very object the attribute reads as now (w.size = w.size): for a
                    # prototyped attribute this pins the value locally all the same
                    op["same"] = True
            elif x < 0.56:
                op = {"k": "set_on", "cand": r.randrange(ncand),
                      "attr": r.choice(["x", "y", "p_a", "p_pa", "q_b", "q_pb"]), "v": ctr[0]}
            elif x < 0.66:
                op = {"k": "swap", "cand": r.randrange(ncand)}
                if r.random() < 0.3:
                    op["via_none"] = True      # parent = None on the way to the next delegate
            elif x < 0.72:
                op = r.choice([{"k": "swap_mid", "mid": r.randrange(nmid)},
                               # a NEW middle object whose own link is still None when it
                               # becomes the child's (the chain is completed afterwards)
                               {"k": "swap_mid", "mid": r.randrange(nmid), "fresh": True,
                                "cand": r.randrange(ncand)},
                               {"k": "swap_inner", "mid": r.randrange(nmid),
                                "cand": r.randrange(ncand)}])
            elif x < 0.80:
                op = {"k": "del_local", "name": r.choice(names)}
            elif x < 0.85:
                op = {"k": "set_mid", "mid": r.randrange(nmid), "attr": r.choice(["x", "my"]),
                      "v": ctr[0]}
            elif x < 0.89:
                op = {"k": "gc"}
            elif x < 0.93:
                op = {"k": "drop", "cand": r.randrange(ncand)}
            elif x < 0.96:
                op = {"k": "restart", "proto": r.choice([2, 4, 5])}
            else:
                op = {"k": "read_all"}
            ops.append(op)
        return {"prop": ID, "seed": seed,
                "config": {"ncand": ncand, "listen": listen, "proto_only": proto_only,
                           # where the deferring traits and __prefix__ are declared
                           "child_cls": c.choice(["Child", "Child", "ChildSub", "ChildMixed", "ChildDflt"]),
                           # delegates that all compare equal (distinct objects)
                           "eq_targets": c.random() < 0.3},
                "ops": ops}

    # ------------------------------------------------------------------ model
    class M:
        pass

    def mk_model(self, ncand):
        m = self.M()
        m.cands = [{"x": 1, "y": "y", "p_a": 2, "p_pa": 3, "q_b": 4, "q_pb": 5} for _ in range(ncand)]
        m.mids = [{"inner": 0, "local_my": UNSET}, {"inner": min(1, ncand - 1), "local_my": UNSET}]
        m.parent = 0
        m.mid = 0
        m.local = {}          # child's local (prototyped) values
        return m

    def mid_value(self, m, k, attr):
        mid = m.mids[k]
        if attr == "x":
            return m.cands[mid["inner"]]["x"]
        if mid["local_my"] is not UNSET:
            return mid["local_my"]
        return m.cands[mid["inner"]]["y"]

    def value(self, m, name):
        from ..zoo11 import DEFER
        kind, dattr, tattr = DEFER[name]
        if kind == "proto" and name in m.local:
            return m.local[name]
        if dattr == "parent":
            return m.cands[m.parent][tattr]
        return self.mid_value(m, m.mid, tattr)

    def all_values(self, m):
        return {n: self.value(m, n) for n in self.names}

    # ------------------------------------------------------------------ execution
    def execute(self, trace, env):
        from ..zoo11 import Target, Mid, Child, ProtoChild, PROTO_NAMES, DEFER, STR_ATTRS
        from traits.trait_errors import TraitError
        from traits.api import push_exception_handler
        from traits.observation import api as oapi
        cfg = trace["config"]
        ncand = cfg["ncand"]
        m = self.mk_model(ncand)
        if cfg.get("eq_targets"):
            from ..zoo11 import EqTarget as Target      # noqa: F811 - value-object delegates
        cands = [Target(uid=i) for i in range(ncand)]
        mids = [Mid(uid=k, inner=cands[m.mids[k]["inner"]]) for k in range(2)]
        self.names = sorted(PROTO_NAMES) if cfg.get("proto_only") else sorted(DEFER)
        from ..zoo11 import CHILD_CLASSES
        if not cfg.get("proto_only") and cfg.get("child_cls") == "ChildDflt":
            # the links are never assigned (nor read by the harness): their default
            # methods hand out the objects that exist already
            from ..zoo11 import DEFAULTS
            # (kept for the whole run: when the defaults are computed is not ours to say)
            DEFAULTS["parent"], DEFAULTS["mid"] = cands[0], mids[0]
            child = CHILD_CLASSES["ChildDflt"]()
        else:
            child = (ProtoChild if cfg.get("proto_only")
                     else CHILD_CLASSES[cfg.get("child_cls", "Child")])(parent=cands[0],
                                                                       mid=mids[0])
        held = [True] * ncand          # harness still references candidate j
        routed = []
        self._pushed = False
        push_exception_handler(lambda o, n, old, new: routed.append(("legacy", n)),
                               reraise_exceptions=False)
        oapi.push_exception_handler(lambda ev: routed.append(("observe", None)),
                                    reraise_exceptions=False)
        self._pushed = True
        events = []

        def attach():
            for name, mech in sorted(cfg["listen"].items()):
                if name not in self.names:
                    continue
                if mech in ("otc", "both"):
                    child.on_trait_change(mk_otc(events, env), name)
                if mech in ("obs", "both"):
                    child.observe(mk_obs(events, env), name)
        attach()
        listening = {n for n, mech in cfg["listen"].items() if mech != "none" and n in self.names}
        nmech = {n: {"none": 0, "otc": 1, "obs": 1, "both": 2}[mech]
                 for n, mech in cfg["listen"].items()}
        stats = {"notify_checked": 0, "silence_checked": 0}

        def strv(attr, v):
            return ("s%d" % v) if attr in STR_ATTRS or attr in ("y",) else v

        for i, op in enumerate(trace["ops"]):
            env.begin_op(i, op)
            k = op["k"]
            del events[:]
            before = self.all_values(m)
            expect_silent_all = False
            target_change = None          # (deferring names that must be notified, new value)
            if k == "gc":
                gc.collect()
            elif k == "read_all":
                pass
            elif k == "drop":
                j = op["cand"] % ncand
                in_use = (j == m.parent) or any(md["inner"] == j for md in m.mids)
                if not in_use and held[j]:
                    # a former delegate: the harness lets go of it (it is re-created
                    # fresh if an op needs candidate j again)
                    cands[j] = None
                    held[j] = False
            elif k == "restart":
                state = [child, cands, mids]
                new, e = sut(lambda: pickle.loads(pickle.dumps(state, op["proto"])))
                if e is not None:
                    raise Violation("C11.restart", "pickle round trip raised %r" % (e,), i)
                child, cands, mids = new
                del state, new
                attach()
            else:
                def cand(j):
                    j = j % ncand
                    if cands[j] is None:
                        cands[j] = Target(uid=j)
                        held[j] = True
                        m.cands[j] = {"x": 1, "y": "y", "p_a": 2, "p_pa": 3, "q_b": 4, "q_pb": 5}
                    return j
                if k in ("set_via", "del_local") and op["name"] not in self.names:
                    pass
                elif k == "set_via":
                    name = op["name"]
                    kind, dattr, tattr = DEFER[name]
                    is_str = tattr in ("y", "my")
                    v = ("s%d" % op["v"]) if is_str else op["v"]
                    if op.get("bad"):
                        v = 5 if is_str else "bad"
                    elif op.get("same"):
                        v, e0 = sut(getattr, child, name)
                        if e0 is not None:
                            raise Violation("C11.mirror", "reading child.%s raised %r"
                                            % (name, e0), i)
                    _, e = sut(setattr, child, name, v)
                    if op.get("bad"):
                        if not isinstance(e, TraitError):
                            raise Violation("C11.invalid-accepted",
                                            "child.%s = %r: the target trait must reject it with "
                                            "TraitError, got %r" % (name, v, e), i)
                    else:
                        if e is not None:
                            raise Violation("C11.assign-raised", "child.%s = %r raised %r"
                                            % (name, v, e), i)
                        if kind == "delegate":
                            if dattr == "parent":
                                m.cands[m.parent][tattr] = v
                            else:
                                m.cands[m.mids[m.mid]["inner"]]["x"] = v
                            if name in child.__dict__:
                                raise Violation("C11.delegate-stored-locally",
                                                "child.%s = %r left a local value on the deferring "
                                                "object" % (name, v), i)
                        else:
                            m.local[name] = v
                elif k == "set_on":
                    j = cand(op["cand"])
                    attr = op["attr"]
                    v = ("s%d" % op["v"]) if attr == "y" else op["v"]
                    _, e = sut(setattr, cands[j], attr, v)
                    if e is not None:
                        raise Violation("C11.assign-raised", "candidate.%s = %r raised %r"
                                        % (attr, v, e), i)
                    m.cands[j][attr] = v
                elif k == "set_mid":
                    kk = op["mid"] % 2
                    attr = op["attr"]
                    v = ("s%d" % op["v"]) if attr == "my" else op["v"]
                    _, e = sut(setattr, mids[kk], attr, v)
                    if e is not None:
                        raise Violation("C11.assign-raised", "mid.%s = %r raised %r" % (attr, v, e), i)
                    if attr == "x":
                        m.cands[m.mids[kk]["inner"]]["x"] = v
                    else:
                        m.mids[kk]["local_my"] = v
                elif k == "swap":
                    j = cand(op["cand"])
                    if op.get("via_none"):
                        _, e = sut(setattr, child, "parent", None)
                        if e is not None:
                            raise Violation("C11.assign-raised", "parent = None raised %r" % (e,), i)
                    _, e = sut(setattr, child, "parent", cands[j])
                    if e is not None:
                        raise Violation("C11.assign-raised", "swapping the delegate raised %r" % (e,), i)
                    m.parent = j
                elif k == "swap_mid" and op.get("fresh") and not cfg.get("proto_only"):
                    kk = op["mid"] % 2
                    j = cand(op["cand"])
                    mids[kk] = Mid(uid=kk)            # (its 'inner' is None)
                    m.mids[kk] = {"inner": j, "local_my": UNSET}
                    _, e = sut(setattr, child, "mid", mids[kk])
                    if e is None:
                        _, e = sut(setattr, mids[kk], "inner", cands[j])
                    if e is not None:
                        raise Violation("C11.assign-raised", "a new middle object, completed "
                                        "after it was linked, raised %r" % (e,), i)
                    m.mid = kk
                    env.probe("chain-completed-after-linking")
                elif k == "swap_mid":
                    kk = op["mid"] % 2
                    _, e = sut(setattr, child, "mid", mids[kk])
                    if e is not None:
                        raise Violation("C11.assign-raised", "swapping mid raised %r" % (e,), i)
                    m.mid = kk
                elif k == "swap_inner":
                    kk = op["mid"] % 2
                    j = cand(op["cand"])
                    _, e = sut(setattr, mids[kk], "inner", cands[j])
                    if e is not None:
                        raise Violation("C11.assign-raised", "swapping mid.inner raised %r" % (e,), i)
                    m.mids[kk]["inner"] = j
                elif k == "del_local":
                    name = op["name"]
                    if name in m.local or DEFER[name][0] == "proto":
                        # (also when there is no local value: the link is as it was)
                        _, e = sut(delattr, child, name)
                        if e is not None:
                            raise Violation("C11.del-raised", "del child.%s raised %r" % (name, e), i)
                        m.local.pop(name, None)
                else:
                    raise HarnessError(k)
            env.end_op()
            after = self.all_values(m)
            # ---- mirror: every deferring attribute reads as the model says
            for name in self.names:
                got, e = sut(getattr, child, name)
                env.oracle_evals += 1
                if e is not None or got != after[name]:
                    raise Violation("C11.mirror",
                                    "after %s: child.%s reads %r (%r), the current target holds %r"
                                    % (describe(op), name, got, e, after[name]), i)
            # ---- the delegates hold what the model says (assignment lands in the delegate only)
            for j in range(ncand):
                if cands[j] is None:
                    continue
                for attr, want in m.cands[j].items():
                    if getattr(cands[j], attr) != want:
                        raise Violation("C11.delegate-state",
                                        "after %s: candidate %d.%s holds %r, model %r"
                                        % (describe(op), j, attr, getattr(cands[j], attr), want), i)
            # ---- notifications
            if k in ("set_on", "set_via", "set_mid", "del_local"):
                by = {}
                for ev in events:
                    by.setdefault(ev[0], []).append(ev)
                for name in self.names:
                    if name not in listening:
                        continue
                    changed = before[name] != after[name]
                    evs = by.get(name, [])
                    env.oracle_evals += 1
                    if changed:
                        if len(evs) != nmech[name]:
                            raise Violation("C11.not-notified",
                                            "%s changed what child.%s mirrors (%r -> %r) but its "
                                            "%d handler(s) got %d call(s)"
                                            % (describe(op), name, before[name], after[name],
                                               nmech[name], len(evs)), i)
                        for ev in evs:
                            if ev[2] != after[name]:
                                raise Violation("C11.notified-value",
                                                "%s: handler of child.%s got new=%r, the target "
                                                "holds %r" % (describe(op), name, ev[2], after[name]), i)
                        stats["notify_checked"] += 1
                    else:
                        if evs:
                            raise Violation("C11.spurious-notification",
                                            "%s does not change what child.%s mirrors (%r) but its "
                                            "handlers were called: %r"
                                            % (describe(op), name, after[name], evs[:2]), i)
                        stats["silence_checked"] += 1
            if routed:
                raise Violation("C11.handler-exception", "an exception was routed to the %s "
                                "exception handler during %s" % (routed[0][0], describe(op)), i)
            env.token(k, op.get("name") or op.get("attr"), bool(events))
            env.cover(k, op.get("name") or op.get("attr"))
        env.nontrivial = stats["notify_checked"] > 0 and stats["silence_checked"] > 0

    def cleanup(self):
        from ..zoo11 import DEFAULTS
        DEFAULTS["parent"] = DEFAULTS["mid"] = None
        if getattr(self, "_pushed", False):
            from traits.api import pop_exception_handler
            from traits.observation import api as oapi
            oapi.pop_exception_handler()
            pop_exception_handler()
            self._pushed = False

    def simplify_trace(self, trace):
        cfg = trace["config"]
        for n, mech in sorted(cfg["listen"].items()):
            if mech != "none":
                t = dict(trace)
                t["config"] = dict(cfg, listen=dict(cfg["listen"], **{n: "none"}))
                yield t
            if mech == "both":
                for alt in ("otc", "obs"):
                    t = dict(trace)
                    t["config"] = dict(cfg, listen=dict(cfg["listen"], **{n: alt}))
                    yield t

    def coverage_report(self, cells):
        return {"measure": "(op kind, attribute) cells", "cells_hit": len(cells)}


def mk_otc(events, env):
    def h(obj, name, old, new):
        env.log("otc", name)
        events.append((name, old, new))
    return h


def mk_obs(events, env):
    def h(event):
        env.log("obs", event.name)
        events.append((event.name, event.old, event.new))
    return h


def describe(op):
    return "%s(%s)" % (op["k"], ", ".join("%s=%r" % (a, b) for a, b in sorted(op.items())
                                          if a not in ("k", "env")))


PROP = Prop()
