"""C16 - legacy on_trait_change extended names agree with observe on unshared
graphs.

World: the graph world restricted to trees (a fresh node at every insertion;
links child / children / table).  The same name pattern is registered once
through on_trait_change(name) and once through observe(expression).  After
every op every node ever created is probed.
"""
import gc

from ..core import Violation, HarnessError, stream, sut
from ..core import deep
from .. import graph as G
from .c08 import expectation

ID = "C16"

LINKS = ["child", "child", "children", "children", "table"]
LINKS_SET = LINKS + ["group", "group"]
ALLOWED = ("add_tagged", "set_child", "set_children", "list", "set_table", "dict", "set_group", "set")
LIST_OK = ("append", "insert", "extend", "iadd", "delitem_i", "delitem_s", "setitem_i",
           "setitem_s", "pop", "pop_last", "clear", "reverse")
DICT_OK = ("setitem", "delitem", "pop", "pop_default", "update_map", "update_pairs", "popitem",
           "clear", "setdefault")


def freshen(x):
    """Every node reference becomes a fresh node: the graph stays a tree."""
    if isinstance(x, dict):
        if x.get("k") == "remove":
            return x          # names an item that is in the list now
        if "at" in x:
            # (would re-insert an item that is in the list already)
            x = {k: v for k, v in x.items() if k != "at"}
        if "n" in x and set(x) <= {"n", "t", "cur"}:
            # ("cur" names a current member of the very set that is operated on: no sharing)
            d = {"fresh": 1}
            if x["n"] % 4 == 0:
                d["tagged"] = 1      # an instance trait with metadata, added beforehand
            if "cur" in x:
                d["cur"] = x["cur"]
            if "t" in x:
                d["t"] = "ref"
            return d
        return {k: freshen(v) for k, v in x.items()}
    if isinstance(x, list):
        return [freshen(v) for v in x]
    return x


def legacy_name(steps, final="value"):
    s = ""
    for name, notify in steps:
        s += name + ("." if notify else ":")
    return s + final


def observe_ast(steps, final="value"):
    b = []
    for name, notify in steps:
        b.append(["t", name, notify])
        if name in ("children", "table", "group"):
            b.append(["items", None, notify])
    if final == "+tag":
        b.append(["meta", "tag", True])
    else:
        b.append(["t", "value", True])
    return [b]


def mk_legacy(arity, calls, env):
    def rec():
        env.log("legacy", None)
        calls.append(1)
    if arity == 0:
        def h():
            rec()
    elif arity == 1:
        def h(new):
            rec()
    elif arity == 2:
        def h(name, new):
            rec()
    elif arity == 3:
        def h(obj, name, new):
            rec()
    else:
        def h(obj, name, old, new):
            rec()
    return h


class Prop:
    ID = ID
    LEVEL = "exploration"
    CHUNK = 40
    GC_EVERY = 5
    RUN_TIMEOUT = 10.0
    DIGEST_EVERY = 20
    RULE = ("seeded random histories (4-30 ops: link reassignment, list and dict mutators, "
            "container reassignment, gc, drop of detached nodes, removal of the registration at a "
            "generated point) on tree-shaped graphs (fresh node at every insertion) over links "
            "child/children/table/group (Set; set mutators incl. those naming current members), with one extended name of 1-3 links ('.' or ':' each) "
            "registered through on_trait_change (handler arity 0, 3 or 4) and through observe; every "
            "node ever created is probed after every op; non-trivial = at least one probe was "
            "reported by both and one by neither after a structural change; distinct = distinct "
            "abstract traces (name shape, op kinds, agreement pattern per op)")
    ASSUMPTIONS = ["graphs are trees: every inserted object is fresh (the statement's 'referenced "
                   "from at most one place')",
                   "in-place mutation of a container at a '.' link is not asserted for the legacy "
                   "side (its own documentation says such an event 'may' be reported)",
                   "agreement is boolean (called / not called); counts are C08's business",
                   "legacy handlers take 0, 3 or 4 arguments; 1- and 2-argument handlers only for a "
                   "single Instance link or a single quiet link: elsewhere traits itself rejects "
                   "them for changes of an intermediate link (TraitError 'handler signature is "
                   "incompatible')"]

    def gen(self, seed):
        c = stream(seed, "config")
        r = stream(seed, "ops")
        nlinks = deep(c, [1, 1, 2, 2, 3], [4])
        eq_nodes = c.random() < 0.4
        # (value objects stay out of sets: which of two equal members is kept is unspecified)
        steps = [[c.choice(LINKS if eq_nodes else LINKS_SET), c.random() < 0.7]
                 for _ in range(nlinks)]
        nops = deep(c, [4, 8, 12, 18, 24, 30], [45, 60])
        arity = c.choice([0, 3, 4, 4])
        if (nlinks == 1 and (steps[0][0] == "child" or not steps[0][1]) and not eq_nodes
                and c.random() < 0.4):
            # (new) and (name, new) handlers: accepted by traits for a single Instance
            # link and for a single quiet link (elsewhere it rejects them itself); not in
            # value-object worlds: these two signatures report a '.' link re-assigned an
            # equal but distinct object, the other signatures and observe do not
            # (observation O4: the statement does not say which is right)
            arity = c.choice([1, 2])
        remove_at = c.choice([None, None, None, c.randrange(nops + 1)])
        # the final attribute: 'value', or every trait that carries the metadata 'tag'
        # ('+tag' in both systems: the class trait 'label' and, on some objects, an
        # instance trait added before or after they were put into the graph)
        final = "+tag" if (arity not in (1, 2) and c.random() < 0.3) else "value"
        ops = []
        while len(ops) < nops:
            x = r.random()
            if x < 0.04:
                ops.append({"k": "gc"})
                continue
            if x < 0.08:
                ops.append({"k": "drop", "o": r.randrange(8)})
                continue
            if x < 0.15 and x >= 0.12:
                # a replaced container mutated through an alias (fresh items only)
                ops.append(freshen(G.gen_detached_op(r, 4)))
                continue
            if final == "+tag" and 0.15 <= x < 0.22:
                ops.append({"k": "add_tagged", "o": r.randrange(12)})
                continue
            if x < 0.12:
                # 'del node.trait': the link falls back to its default
                ops.append({"k": "del_attr", "o": 0 if r.random() < 0.35 else r.randrange(12),
                            "name": r.choice((["child"] if arity not in (1, 2) else [])
                                             + ["children", "table"]
                                             + ([] if eq_nodes else ["group"]))})
                continue
            op = G.gen_graph_op(r, 4)
            if op["k"] not in ALLOWED:
                continue
            if op["k"] == "list" and op["op"]["k"] not in LIST_OK:
                continue
            if op["k"] == "dict" and op["op"]["k"] not in DICT_OK:
                continue
            if op["k"] in ("set", "set_group") and eq_nodes:
                continue
            op = freshen(op)
            if arity in (1, 2) and op["k"] == "set_child" and "none" in op.get("v", {}):
                # (name, new) handlers get the value of the final attribute: traits calls a
                # link set to None 'incompatible with a change to an intermediate trait'
                op["v"] = {"fresh": 1}
            op["o"] = 0 if r.random() < 0.35 else r.randrange(12)
            ops.append(op)
        return {"prop": ID, "seed": seed,
                "config": {"steps": steps, "arity": arity, "remove_at": remove_at,
                           "eq_nodes": eq_nodes, "small_values": c.random() < 0.5,
                           "final": final,
                           # on_trait_change(..., deferred=True): defaults along the name
                           # are not forced into existence by the registration
                           "deferred": c.random() < 0.25,
                           # ops executed BEFORE the two registrations: they are made on
                           # a graph that exists already
                           "pre": c.choice([0, 0, 2, 4]),
                           # a second legacy handler under the same name: a bound method of
                           # another object, which is dropped and collected at this op
                           "second_owner": (c.randrange(nops + 1) if c.random() < 0.25
                                            else None)},
                "ops": ops}

    def execute(self, trace, env):
        from traits.api import push_exception_handler
        from traits.observation import api as oapi
        cfg = trace["config"]
        self._pushed = False
        # some runs use "value objects" (equality by key): a link can then be re-assigned
        # a distinct object that compares equal to the one it replaces
        world = G.World(env, 1, classes="EqNode" if cfg.get("eq_nodes") else "Node")
        world.lazy_enabled = False
        world.del_enabled = True
        world.detached_enabled = True
        self._world = world
        routed = []
        import sys as _sys

        def _what():
            e = _sys.exc_info()[1]
            return "%s: %s" % (type(e).__name__, e) if e is not None else "?"
        oapi.push_exception_handler(lambda ev: routed.append("observe (%s)" % _what()),
                                    reraise_exceptions=False)
        push_exception_handler(lambda o, n, old, new: routed.append("legacy (%s)" % _what()),
                               reraise_exceptions=False)
        self._pushed = True
        steps = cfg["steps"]
        final = cfg.get("final", "value")
        name = legacy_name(steps, final)
        ast = observe_ast(steps, final)
        L, O = [], []
        hl = mk_legacy(cfg["arity"], L, env)

        def ho(event):
            env.log("observe", None)
            O.append(1)
        root = world.nodes[0]
        rootm = world.mnodes[0]
        world.pinned_uids = {rootm.uid}

        class Owner:
            def on_change(self, obj, name_, new):
                env.log("legacy2", None)
        owner = [Owner()] if cfg.get("second_owner") is not None else []

        def register_both(step):
            if owner and cfg["arity"] not in (1, 2):
                _, e = sut(root.on_trait_change, owner[0].on_change, name)
                if e is not None:
                    raise Violation("C16.registration", "on_trait_change(owner.method, %r) "
                                    "raised %r" % (name, e), step)
            _, e = sut(root.on_trait_change, hl, name, deferred=bool(cfg.get("deferred")))
            if e is not None:
                raise Violation("C16.registration", "on_trait_change(%r) raised %r" % (name, e),
                                step)
            _, e = sut(root.observe, ho, G.render_text(ast))
            if e is not None:
                raise Violation("C16.registration", "observe(%r) raised %r"
                                % (G.render_text(ast), e), step)
        npre = cfg.get("pre", 0)
        registered = False
        started = False
        agree_yes = agree_no = structural = 0
        for i, op in enumerate(trace["ops"]):
            env.begin_op(i, op)
            k = op["k"]
            if not started and i >= npre:
                register_both(i)
                registered = started = True
            if owner and started and i >= cfg["second_owner"]:
                # the other handler's owner goes away: the first handler goes on as before
                del owner[:]
                gc.collect()
                env.probe("second-handler-owner-collected")
            if registered and cfg["remove_at"] is not None and i >= cfg["remove_at"]:
                _, e1 = sut(root.on_trait_change, hl, name, remove=True)
                _, e2 = sut(root.observe, ho, G.render_text(ast), remove=True)
                if e1 is not None or e2 is not None:
                    raise Violation("C16.removal", "removing the registrations raised %r / %r"
                                    % (e1, e2), i)
                registered = False
            del L[:], O[:]
            changes = world.apply(op, i)
            if k not in ("gc", "drop"):
                t = world.idx(op.get("o", 0))
                world.check_structure(i, only=[(world.nodes[t], world.mnodes[t])])
            notifying = G.match(ast, rootm)[0] if registered else set()
            pattern = []
            for ch in changes:
                if ch.kind == "read":
                    continue
                exp = expectation(ch, notifying)
                env.oracle_evals += 1
                l, o = bool(L), bool(O)
                if ch.kind == "trait":
                    want = exp is not None
                    if not (l == o == want):
                        raise Violation("C16.link-change",
                                        "%s of N%d.%s under %r: legacy %s, observe %s, model says "
                                        "the link is %s"
                                        % (k, ch.mobj.uid, ch.name, name, called(l), called(o),
                                           "reachable and notifying" if want else
                                           "unreachable or silent"), i)
                    if ch.changed:
                        structural += 1
                else:
                    if exp is None and (l or o):
                        raise Violation("C16.quiet-link",
                                        "%s/%s on N%d.%s under %r: legacy %s, observe %s, but the "
                                        "container is unreachable or behind a ':' link"
                                        % (k, op.get("op", {}).get("k"), ch.mobj.uid, ch.name, name,
                                           called(l), called(o)), i)
                    if exp is not None and exp[0] == "must" and not o:
                        raise Violation("C16.observe-side",
                                        "%s/%s on a notifying container: observe not called"
                                        % (k, op.get("op", {}).get("k")), i)
                    if ch.changed:
                        structural += 1
                pattern.append((l, o))
            # probe every node ever created (and still alive)
            if k not in ("gc", "drop"):
                for uid in world.alive_uids():
                    n = world.node(uid)
                    if n is None:       # released by a drop op and gone by now
                        continue
                    m = world.model(uid)
                    for pname in (("value",) if final == "value" else ("value", "label", "tagged")):
                        if pname not in m.traits():
                            continue
                        del L[:], O[:]
                        v = world.fresh_value()
                        if cfg.get("small_values") and pname != "label":
                            # few distinct values: a replaced object and its replacement
                            # often hold the same final value
                            cur = m.get(pname) if isinstance(m.get(pname), int) else 0
                            v = 0 if cur != 0 else 1
                        if pname == "label":
                            v = "s%d" % v
                        _, e = sut(setattr, n, pname, v)
                        if e is not None:
                            raise Violation("C16.probe-raised", "N%d.%s = %r raised %r"
                                            % (uid, pname, v, e), i)
                        setattr(m, pname, v)
                        want = G.tkey(m, pname) in notifying
                        l, o = bool(L), bool(O)
                        env.oracle_evals += 1
                        if not (l == o == want):
                            raise Violation("C16.probe",
                                            "after %s: changing N%d.%s under %r: legacy %s, observe "
                                            "%s, model says N%d is %s"
                                            % (describe(op), uid, pname, name, called(l), called(o),
                                               uid, "reachable" if want else
                                               ("unregistered" if not registered
                                                else "not reachable (or the trait not matched)")),
                                            i)
                        if want:
                            agree_yes += 1
                        else:
                            agree_no += 1
            env.end_op()
            env.token(k, op.get("op", {}).get("k") if isinstance(op.get("op"), dict) else None,
                      tuple(pattern))
            env.cover(k, op.get("op", {}).get("k") if isinstance(op.get("op"), dict) else None,
                      registered)
        if not started:
            register_both(len(trace["ops"]))
        if routed:
            raise Violation("C16.handler-exception", "an exception was routed to the %s exception "
                            "handler" % routed[0], None)
        env.nontrivial = agree_yes > 0 and agree_no > 0 and structural > 0
        env.probe("probes-both-called", agree_yes)
        env.probe("probes-both-silent", agree_no)

    def cleanup(self):
        if getattr(self, "_pushed", False):
            from traits.observation import api as oapi
            from traits.api import pop_exception_handler
            pop_exception_handler()
            oapi.pop_exception_handler()
            self._pushed = False
        w = getattr(self, "_world", None)
        if w is not None:
            w.close()
            self._world = None

    def simplify_trace(self, trace):
        cfg = trace["config"]
        if len(cfg["steps"]) > 1:
            for j in range(len(cfg["steps"])):
                t = dict(trace)
                t["config"] = dict(cfg, steps=cfg["steps"][:j] + cfg["steps"][j + 1:])
                yield t
        if cfg["remove_at"] is not None:
            t = dict(trace)
            t["config"] = dict(cfg, remove_at=None)
            yield t
        if cfg["arity"] != 4:
            t = dict(trace)
            t["config"] = dict(cfg, arity=4)
            yield t

    def coverage_report(self, cells):
        return {"measure": "(op kind, container mutator, registered?) cells", "cells_hit": len(cells)}


def called(b):
    return "called" if b else "not called"


def describe(op):
    inner = op.get("op", {}).get("k") if isinstance(op.get("op"), dict) else None
    return "%s%s on #%s" % (op["k"], ("/" + inner) if inner else "", op.get("o"))


PROP = Prop()
