"""C05 - TraitList refines list; change events are faithful normalised deltas.

World: one stand-alone TraitList with a harness validator and 1-3 listeners
(raw notifiers and observers registered through traits.observation.api.observe
in generated order).  Reference model: a built-in list of validated items.
Environment: the validator is a callback point (raise at the k-th item), the
iterable argument may raise at its k-th element, gc at callback points.
"""
from ..core import Violation, stream, sut, exc_name, InjectedFault
from ..core import deep
from ..values import CUR, ModelTraitError, raw, mval, make_validator, RaisingIter

ID = "C05"

OPS = ["setitem_i", "setitem_s", "setitem_s_match", "delitem_i", "delitem_s",
       "append", "extend", "insert", "iadd", "imul", "pop", "pop_last",
       "remove", "sort", "reverse", "clear"]

STEPS = [None, 1, -1, 2, -2, 3, -3, "L+1", "-(L+1)", 0]


# ---------------------------------------------------------------- helpers

def res_index(x, L):
    if x == "L+1":
        return L + 1
    if x == "-(L+1)":
        return -(L + 1)
    return x


def mk_slice(s):
    return slice(s[0], s[1], s[2])


def iclass(i, L):
    if type(i) is not int:
        return "non-int"
    if i < -L:
        return "neg-oob" if i < -L - 1 else "-L-1"
    if i < 0:
        return "-1" if i == -1 else ("-L" if i == -L else "neg-in")
    if i >= L:
        return "L" if i == L else "pos-oob"
    return "0" if i == 0 else ("L-1" if i == L - 1 else "pos-in")


def bclass(b, L):
    if b is None:
        return "None"
    if b < -L:
        return "<-L"
    if b < 0:
        return "neg"
    if b >= L:
        return ">=L"
    return "in"


def sclass(s, L):
    step = s[2]
    if step is not None and abs(step) > 3:
        step = "big" if step > 0 else "-big"
    return (bclass(s[0], L), bclass(s[1], L), step)


def apply_event(before, index, removed, added):
    """The replay law.  Returns the replayed list or raises AssertionError
    with the name of the broken clause."""
    b = list(before)
    if type(removed) is not list or type(added) is not list:
        raise AssertionError("removed/added are not lists")
    if isinstance(index, slice):
        if not (type(index.start) is int and type(index.stop) is int
                and type(index.step) is int):
            raise AssertionError("slice fields not ints: %r" % (index,))
        if not (index.step >= 2 and 0 <= index.start < index.stop <= len(before)):
            raise AssertionError("slice not in normal form: %r for length %d"
                                 % (index, len(before)))
        if b[index] != removed:
            raise AssertionError("slice %r does not select removed %r in %r"
                                 % (index, removed, before))
        if added:
            if len(added) != len(removed):
                raise AssertionError("extended slice event with len(added) != len(removed)")
            b[index] = added
        else:
            del b[index]
    else:
        if type(index) is not int or index < 0:
            raise AssertionError("index not a non-negative int: %r" % (index,))
        if index > len(before):
            raise AssertionError("index %r beyond old length %d" % (index, len(before)))
        if b[index:index + len(removed)] != removed:
            raise AssertionError("removed %r not found at index %r of %r"
                                 % (removed, index, before))
        b[index:index + len(removed)] = added
    return b


def gen_list_op(r, m, item, ops=OPS):
    """One list-mutator op with indices/slices chosen around len(m)."""
    L = len(m)
    k = r.choice(ops)
    op = {"k": k}

    def ri():
        return r.randint(-L - 3, L + 3)

    def rs():
        def f():
            return r.choice([None] + list(range(-L - 3, L + 4)))
        st = res_index(r.choice(STEPS), L)
        return [f(), f(), st]
    if k == "setitem_i":
        op["i"] = ri()
        op["v"] = item()
    elif k == "setitem_s":
        op["s"] = rs()
        op["vs"] = [item() for _ in range(r.randint(0, 3))]
        if r.random() < 0.03:
            op["noniter"] = True
    elif k == "setitem_s_match":
        op["k"] = "setitem_s"
        op["s"] = rs()
        try:
            n = len(m[mk_slice(op["s"])])
        except ValueError:
            n = 1
        op["vs"] = [item() for _ in range(n)]
    elif k == "delitem_i":
        op["i"] = ri()
    elif k == "delitem_s":
        op["s"] = rs()
    elif k in ("append",):
        op["v"] = item()
    elif k in ("extend", "iadd"):
        op["vs"] = [item() for _ in range(r.randint(0, 3))]
    elif k == "insert":
        op["i"] = ri()
        op["v"] = item()
    elif k == "imul":
        op["n"] = r.choice([-1, 0, 1, 2, 2, 3])
        if r.random() < 0.12:
            # no integer: the built-in refuses it whatever its size
            op["n"] = r.choice([0.5, -1.5, 2.5, 0.0])
    elif k == "pop":
        op["i"] = ri()
    elif k == "remove":
        op["v"] = {"t": "int", "v": r.choice(m) if m and r.random() < 0.8 else 7}
    elif k == "sort":
        op["reverse"] = r.random() < 0.5
        op["key"] = r.choice([None, None, "neg", "mod3"])
    if "i" in op and r.random() < 0.04:
        # no integer (and no __index__): the built-in refuses it
        op["i"] = r.choice([1.5, -0.5, "1", 1.0, None])
    if "vs" in op and not op.get("noniter") and r.random() < 0.3:
        # the shape of the argument: any iterable is as good as a list (a generator
        # has neither __len__ nor __length_hint__, a tuple is no list, ...)
        op["as"] = r.choice(["gen", "gen", "tuple", "iter", "map"])
    return op


def shape_arg(items, how):
    """The same items as another kind of iterable."""
    if how == "gen":
        return (x for x in items)
    if how == "tuple":
        return tuple(items)
    if how == "iter":
        return iter(items)
    if how == "map":
        return map(lambda x: x, items)
    return items


def sut_list_apply(tl, op):
    """Apply a list op to the system under test; returns (ret, exc)."""
    k = op["k"]
    arg = None
    if "vs" in op:
        items = [raw(s) for s in op["vs"]]
        if "iter_raise_at" in op:
            arg = RaisingIter(items, op["iter_raise_at"], op["iter_exc"])
        else:
            arg = shape_arg(items, op.get("as"))
    if k == "setitem_i":
        return sut(tl.__setitem__, op["i"], raw(op["v"]))
    if k == "setitem_s":
        return sut(tl.__setitem__, mk_slice(op["s"]), 5 if op.get("noniter") else arg)
    if k == "delitem_i":
        return sut(tl.__delitem__, op["i"])
    if k == "delitem_s":
        return sut(tl.__delitem__, mk_slice(op["s"]))
    if k == "append":
        return sut(tl.append, raw(op["v"]))
    if k == "extend":
        return sut(tl.extend, arg)
    if k == "iadd":
        return sut(tl.__iadd__, arg)
    if k == "insert":
        return sut(tl.insert, op["i"], raw(op["v"]))
    if k == "imul":
        return sut(tl.__imul__, op["n"])
    if k == "pop":
        return sut(tl.pop, op["i"])
    if k == "pop_last":
        return sut(tl.pop)
    if k == "remove":
        return sut(tl.remove, raw(op["v"]))
    if k == "sort":
        return sut(tl.sort, key=KEYS[op.get("key")], reverse=op.get("reverse", False))
    if k == "reverse":
        return sut(tl.reverse)
    if k == "clear":
        return sut(tl.clear)
    raise AssertionError(k)


def cover_list_op(env, op, L):
    k = op["k"]
    if k in ("setitem_i", "delitem_i", "insert", "pop"):
        env.cover(k, min(L, 6), iclass(op["i"], L))
    elif k in ("setitem_s", "delitem_s"):
        env.cover(k, min(L, 6), sclass(op["s"], L))


# ---------------------------------------------------------------- property

class Prop:
    ID = ID
    LEVEL = "exploration"
    CHUNK = 400
    GC_EVERY = 100
    RULE = ("seeded random histories (3-25 ops over 16 mutators, lengths 0-7, "
            "int indices in [-len-3,len+3], slices with None/oversized/negative "
            "start/stop and steps in {None,+-1,+-2,+-3,+-(len+1),0}, valid/"
            "coercible/invalid items handed over as list, tuple, generator, iterator "
            "or map object, validator faults at the k-th item, raising iterables) against a built-in list; a run is non-trivial if at least "
            "one op changed the contents and an event was checked by the replay "
            "law; distinct = distinct abstract traces (op kind, index/slice "
            "class, outcome class, fault fired, event shape per op)")
    ASSUMPTIONS = ["items are ints (total order for sort); integer indices only",
                   "oracle accepts TraitError or the built-in's exception class "
                   "when an op is both ill-formed for list and carries an invalid item"]

    # -------------------------------------------------------------- generation
    def gen(self, seed):
        cfg_r = stream(seed, "config")
        r = stream(seed, "ops")
        er = stream(seed, "env")
        vkind = cfg_r.choice(["none", "coerce", "coerce", "point", "point", "once"])
        n0 = cfg_r.choice([0, 0, 1, 2, 3, 4, 5, 5, 6, 7])
        listeners = [cfg_r.choice(["raw", "raw", "obs"])
                     for _ in range(cfg_r.randint(1, 3))]
        nops = deep(cfg_r, [3, 5, 8, 12, 18, 25], [40, 70])
        fault_rate = cfg_r.choice([0.0, 0.0, 0.05, 0.15]) if vkind == "point" else 0.0
        invalid_rate = cfg_r.choice([0.0, 0.05, 0.15]) if vkind != "none" else 0.0
        ctr = [100]

        def fresh():
            ctr[0] += 1
            return ctr[0]
        m = []

        def item():
            x = r.random()
            if x < invalid_rate:
                return {"t": "bad"}
            if vkind != "none" and x < invalid_rate + 0.1:
                return {"t": "str", "v": str(fresh())}
            if m and r.random() < 0.2:
                return {"t": "int", "v": r.choice(m)}
            return {"t": "int", "v": fresh()}

        init = [{"t": "int", "v": fresh()} for _ in range(n0)]
        m = [s["v"] for s in init]
        ops = []
        for _ in range(nops):
            op = gen_list_op(r, m, item)
            k = op["k"]
            # environment events attached to this op
            if "vs" in op and r.random() < 0.08:
                op["iter_raise_at"] = r.randint(0, len(op["vs"]))
                op["iter_exc"] = r.choice(["ValueError", "RuntimeError", "TypeError", "KeyError"])
            nval = len(op["vs"]) if "vs" in op else (1 if "v" in op and k != "remove" else 0)
            if fault_rate and nval and er.random() < fault_rate * 2:
                op["env"] = [{"at": "validator", "nth": er.randint(1, nval),
                              "do": "raise",
                              "exc": er.choice(["TraitError", "ValueError",
                                                "AttributeError", "RuntimeError"])}]
            elif vkind == "point" and nval and er.random() < 0.03:
                op["env"] = [{"at": "validator", "nth": 1, "do": "gc"}]
            ops.append(op)
            # advance the generator's own copy of the model (best effort)
            if not op.get("env") and "iter_raise_at" not in op:
                try:
                    self.model_apply(m, op, vkind)
                except Exception:      # noqa: BLE001
                    pass
            if len(m) > 12:
                ops.append({"k": "delitem_s", "s": [6, None, None]})
                del m[6:]
        return {"prop": ID, "seed": seed,
                "config": {"vkind": vkind, "init": init, "listeners": listeners,
                           # a second list next to this one (built alike, from the same
                           # notifiers= list object, or as a copy): neither hears the other
                           # extra raw notifiers, one of which unhooks others mid-notification
                           "unhook": ({"n": 3, "at": cfg_r.randrange(6), "who": cfg_r.randrange(3),
                                       "victims": cfg_r.sample(range(3), cfg_r.randint(1, 2))}
                                      if cfg_r.random() < 0.25 else None),
                           "sibling": cfg_r.choice([None, None, "plain", "shared", "copy", "deepcopy",
                                                "pickle"])},
                "ops": ops}

    # -------------------------------------------------------------- model
    @staticmethod
    def model_apply(m, op, vkind):
        """Apply op to the built-in list ``m``; returns (ret, val_exc, list_exc)
        where val_exc is 'TraitError'/injected class name if validation of the
        arguments fails and list_exc is the exception class name the built-in
        raises on the validated (or, if validation failed, raw-valid) items.
        ``m`` is modified only if both are None."""
        k = op["k"]
        val_exc = None
        vs = None
        v = None
        if "vs" in op:
            vs = []
            ra = op.get("iter_raise_at")
            for idx, s in enumerate(op["vs"]):
                if ra is not None and idx == ra:
                    val_exc = op["iter_exc"]
                    break
                try:
                    vs.append(mval(s, vkind))
                except ModelTraitError:
                    val_exc = "TraitError"
                    break
            else:
                if ra is not None and ra >= len(op["vs"]):
                    val_exc = op["iter_exc"]
        if "v" in op and k != "remove":
            try:
                v = mval(op["v"], vkind)
            except ModelTraitError:
                val_exc = "TraitError"
        trial = list(m)
        ret = None
        list_exc = None
        try:
            if k == "setitem_i":
                trial[op["i"]] = v
            elif k == "setitem_s":
                if op.get("noniter"):
                    val_exc = None
                    trial[mk_slice(op["s"])] = 5
                else:
                    # if validation failed use placeholders of the right count
                    items = vs if val_exc is None else [0] * len(op["vs"])
                    trial[mk_slice(op["s"])] = items
            elif k == "delitem_i":
                del trial[op["i"]]
            elif k == "delitem_s":
                del trial[mk_slice(op["s"])]
            elif k == "append":
                trial.append(v)
            elif k == "extend":
                trial.extend(vs if val_exc is None else [])
            elif k == "iadd":
                trial += (vs if val_exc is None else [])
            elif k == "insert":
                trial.insert(op["i"], v)
            elif k == "imul":
                trial *= op["n"]
            elif k == "pop":
                ret = trial.pop(op["i"])
            elif k == "pop_last":
                ret = trial.pop()
            elif k == "remove":
                trial.remove(raw(op["v"]))
            elif k == "sort":
                trial.sort(key=KEYS[op.get("key")], reverse=op.get("reverse", False))
            elif k == "reverse":
                trial.reverse()
            elif k == "clear":
                trial.clear()
            else:
                raise AssertionError(k)
        except (IndexError, ValueError, TypeError) as e:
            list_exc = type(e).__name__
        if val_exc is None and list_exc is None:
            m[:] = trial
        return ret, val_exc, list_exc

    # -------------------------------------------------------------- execution
    def execute(self, trace, env):
        from traits.trait_list_object import TraitList
        from traits.observation.api import observe
        from traits.observation import expression
        cfg = trace["config"]
        vkind = cfg["vkind"]
        CUR["env"] = env
        validator = make_validator(vkind, "validator")
        m = [mval(s, vkind) for s in cfg["init"]]
        shared = [] if cfg.get("sibling") == "shared" else None
        if shared is not None:
            tl = TraitList([raw(s) for s in cfg["init"]], item_validator=validator,
                           notifiers=shared)
        else:
            tl = TraitList([raw(s) for s in cfg["init"]], item_validator=validator)
        if list(tl) != m:
            raise Violation("C05.construct", "TraitList(%r) holds %r" % (m, list(tl)), 0)
        recs = []
        for kind in cfg["listeners"]:
            rec = []
            recs.append((kind, rec))
            if kind == "raw":
                def notifier(l, index, removed, added, rec=rec):
                    env.log("raw", None)
                    rec.append((l, index, removed, added, list(l)))
                tl.notifiers.append(notifier)
            else:
                def handler(event, rec=rec):
                    env.log("obs", None)
                    rec.append((event.object, event.index, event.removed,
                                event.added, list(event.object)))
                observe(tl, expression.list_items(), handler)
        sib = None
        if cfg.get("sibling"):
            from ..sibling import Sibling
            # (the sibling's items are the validated items of the main list: no validation)
            sib = Sibling(ID, cfg["sibling"], tl,
                          lambda _n: (TraitList(list(tl), notifiers=shared)
                                      if shared is not None else TraitList(list(tl))), env)
        unh = None
        if cfg.get("unhook"):
            from ..sibling import Unhookers
            unh = Unhookers(ID, tl, cfg["unhook"], env)
        kept = []      # (step, removed object, added object, their contents when received)
        for i, op in enumerate(trace["ops"]):
            env.begin_op(i, op)
            for _, rec in recs:
                for (obj, index, removed, added, snap) in rec:
                    if len(kept) < 64:
                        kept.append((i - 1, removed, added, list(removed), list(added)))
                del rec[:]
            # an event a listener kept must still say what it said when it was delivered
            for (step, removed, added, r0, a0) in kept:
                if list(removed) != r0 or list(added) != a0:
                    raise Violation("C05.event-aliases-list",
                                    "the event delivered at step %d changed after delivery: "
                                    "(removed=%r, added=%r) was (removed=%r, added=%r) - its "
                                    "payload aliases the live list" % (step, list(removed),
                                                                        list(added), r0, a0), i)
            if sib is not None and i % 3 == 2:
                sib.poke(recs, i)
            if unh is not None:
                unh.begin_op(i)
            k = op["k"]
            before = list(m)
            L = len(before)
            fired0 = env.fired["raise"]
            ret_m, val_exc, list_exc = self.model_apply(m, op, vkind)
            # ---- apply to the system under test
            ret, e = sut_list_apply(tl, op)
            cover_list_op(env, op, L)
            env.end_op()
            if sib is not None:
                sib.after_main_op(op["k"], i)
            injected = env.fired["raise"] > fired0
            if injected:
                # the validator callback failed: the model must not move
                m[:] = before
            after = list(tl)
            en = exc_name(e)
            env.oracle_evals += 1
            # ---- oracle: outcome class
            if injected:
                if not isinstance(e, InjectedFault):
                    raise Violation("C05.fault-propagation",
                                    "%s: validator raised an injected fault but the caller saw %r"
                                    % (k, e), i)
                expect_fail = True
            else:
                expect_fail = (val_exc is not None or list_exc is not None)
                if expect_fail:
                    ok = [x for x in (val_exc, list_exc) if x]
                    if en not in ok:
                        raise Violation("C05.exception-class",
                                        "%s on %r: expected %s, got %r"
                                        % (describe(op), before, " or ".join(ok), e), i)
                elif e is not None:
                    raise Violation("C05.exception-class",
                                    "%s on %r: list succeeds, TraitList raised %r"
                                    % (describe(op), before, e), i)
            if expect_fail:
                if after != before:
                    raise Violation("C05.failure-atomicity",
                                    "%s failed with %s but contents changed %r -> %r"
                                    % (describe(op), en, before, after), i)
                for kind, rec in recs:
                    if rec:
                        raise Violation("C05.event-on-failure",
                                        "%s failed with %s but a %s listener got %r"
                                        % (describe(op), en, kind, rec[0][1:4]), i)
                env.token(k, "fail", en, injected)
                continue
            # ---- success: refinement
            if after != m:
                raise Violation("C05.contents",
                                "%s on %r: list gives %r, TraitList holds %r"
                                % (describe(op), before, m, after), i)
            if k in ("iadd", "imul"):
                if ret is not tl:
                    raise Violation("C05.return", "%s did not return self" % k, i)
            elif ret != ret_m or type(ret) is not type(ret_m):
                raise Violation("C05.return", "%s returned %r, list returns %r"
                                % (describe(op), ret, ret_m), i)
            # ---- events
            changed = (m != before)
            shape = None
            if unh is not None:
                unh.check(changed, describe(op), i)
            for kind, rec in recs:
                if changed and len(rec) != 1:
                    raise Violation("C05.event-count",
                                    "%s changed %r -> %r but a %s listener got %d events"
                                    % (describe(op), before, m, kind, len(rec)), i)
                for (obj, index, removed, added, snap) in rec:
                    if obj is not tl:
                        raise Violation("C05.event-object", "event names another list", i)
                    try:
                        rep = apply_event(before, index, removed, added)
                    except AssertionError as a:
                        raise Violation("C05.index-normal-form",
                                        "%s on %r: event (index=%r, removed=%r, added=%r): %s"
                                        % (describe(op), before, index, removed, added, a), i)
                    if rep != m:
                        raise Violation("C05.replay-law",
                                        "%s on %r -> %r: replaying (index=%r, removed=%r, "
                                        "added=%r) gives %r"
                                        % (describe(op), before, m, index, removed, added, rep), i)
                    shape = ("slice" if isinstance(index, slice) else "int",
                             min(len(removed), 3), min(len(added), 3))
                    env.nontrivial = env.nontrivial or changed
            if recs and recs[0][1]:
                first = recs[0][1][0]
                for kind, rec in recs[1:]:
                    if not rec:
                        raise Violation("C05.event-count",
                                        "listeners disagree on the number of events", i)
                    o = rec[0]
                    if (o[1], o[2], o[3]) != (first[1], first[2], first[3]):
                        raise Violation("C05.listeners-agree",
                                        "raw notifier saw %r, observer saw %r"
                                        % (first[1:4], o[1:4]), i)
            env.token(k, "ok", changed, shape,
                      sclass(op["s"], L) if "s" in op else
                      (iclass(op["i"], L) if "i" in op else None))

    # -------------------------------------------------------------- shrinking
    def simplify_op(self, op):
        if "iter_raise_at" in op:
            o = dict(op)
            del o["iter_raise_at"]
            o.pop("iter_exc", None)
            yield o
        if "vs" in op and len(op["vs"]) > 0:
            for j in range(len(op["vs"])):
                o = dict(op)
                o["vs"] = op["vs"][:j] + op["vs"][j + 1:]
                yield o
        if "s" in op:
            s = op["s"]
            for j in range(3):
                if s[j] is not None and not (j == 2 and s[j] in (1,)):
                    o = dict(op)
                    o["s"] = list(s)
                    o["s"][j] = None
                    yield o
        for key in ("v",):
            if key in op and op[key].get("t") != "int":
                o = dict(op)
                o[key] = {"t": "int", "v": 1}
                yield o

    def simplify_trace(self, trace):
        cfg = trace["config"]
        if len(cfg["listeners"]) > 1:
            for j in range(len(cfg["listeners"])):
                t = dict(trace)
                t["config"] = dict(cfg, listeners=cfg["listeners"][:j] + cfg["listeners"][j + 1:])
                yield t
        if cfg["init"]:
            for j in range(len(cfg["init"])):
                t = dict(trace)
                t["config"] = dict(cfg, init=cfg["init"][:j] + cfg["init"][j + 1:])
                yield t

    def cleanup(self):
        CUR["env"] = None

    # -------------------------------------------------------------- coverage
    def coverage_report(self, cells):
        bcl = ["None", "<-L", "neg", ">=L", "in"]
        steps = [None, 1, -1, 2, -2, 3, -3, "big", "-big", 0]
        icl = ["neg-oob", "-L-1", "-L", "neg-in", "-1", "0", "pos-in", "L-1", "L", "pos-oob"]
        total = set()
        for L in range(0, 6):
            for opk in ("setitem_s", "delitem_s"):
                for a in bcl:
                    for b in bcl:
                        for st in steps:
                            if L < 3 and st in ("big", "-big"):
                                continue
                            if L == 0 and ("neg" in (a, b) or "in" in (a, b)):
                                continue
                            total.add((opk, L, (a, b, st)))
            for opk in ("setitem_i", "delitem_i", "insert", "pop"):
                for c in icl:
                    if L == 0 and c in ("neg-in", "-1", "0", "pos-in", "L-1", "-L"):
                        continue
                    if L == 1 and c in ("neg-in", "pos-in", "-L", "L-1"):
                        continue
                    if L == 2 and c in ("neg-in", "pos-in"):
                        continue
                    total.add((opk, L, c))
        hit = {c for c in cells if c in total}
        return {"measure": "(mutator, length<=5, index/slice class) cells",
                "cells_total": len(total), "cells_hit": len(hit),
                "cells_other": len(cells) - len(hit)}


KEYS = {None: None, "neg": (lambda x: -x), "mod3": (lambda x: x % 3)}


def describe(op):
    k = op["k"]
    if "s" in op:
        return "%s[%s:%s:%s]%s" % (k, op["s"][0], op["s"][1], op["s"][2],
                                   (" = %d items" % len(op["vs"])) if "vs" in op else "")
    if "i" in op:
        return "%s(%r)" % (k, op["i"])
    return k


PROP = Prop()
