"""C08 - observe handlers track exactly the objects currently reachable.

World: simtraits.graph (pool of interlinked nodes + plain-Python model).  1-3
handlers observe generated expressions; after every op every pool object is
probed.  The model recomputes, from scratch, which (object, trait) pairs and
containers each expression matches with notify on; each change must call each
handler exactly once iff the changed observable is matched.
"""
import gc

from ..core import Violation, HarnessError, stream, sut
from ..core import deep
from ..sched import Sched
from .. import graph as G
from . import c05, c06, c07

ID = "C08"


class Handler:
    def __init__(self, spec):
        self.id = spec["id"]
        self.spec = spec
        self.expr = spec["expr"]
        self.root_uid = None
        self.fn = None


class Prop:
    ID = ID
    LEVEL = "exploration"
    CHUNK = 40
    GC_EVERY = 5
    RUN_TIMEOUT = 10.0
    DIGEST_EVERY = 20
    RULE = ("seeded random histories (3-30 graph ops: link reassignment incl. None/fresh/shared "
            "nodes and cycles, every list/dict/set mutator with duplicates, nested-list grid, "
            "equal-list reassignment, lazy default reads, add_trait (also of a trait whose "
            "constant default is a pool node, read for the first time later), gc, drop of pool "
            "nodes, "
            "simulated thread switches and deferred ui delivery) on a pool of 2-5 nodes with 1-3 "
            "handlers observing generated expressions (series with '.'/':', parallel branches, "
            "items and typed *_items, +metadata, '*', nested containers, optional traits; text "
            "and expression-object forms); after every op every pool object is probed; "
            "non-trivial = at least one graph op changed the matched set and at least one probe "
            "was expected to call and one expected silent; distinct = distinct abstract traces "
            "(expression shape, op kinds, expected-call pattern per op)")
    ASSUMPTIONS = ["assigning a never-read trait the very object that is its constant default is "
                   "excluded (known finding K3)",
                   "links are typed (Instance/List(Instance)...) and containers never hold None",
                   "histories in which one observable is matched at two depths of one expression "
                   "branch (level aliasing, known finding K1) are excluded by a model-side guard",
                   "conflicting re-entrant mutation from handlers is not generated"]
    COMPONENTS = {"real": ["traits.observation (all), traits core, ctraits from the working tree",
                           "CPython gc/weakref"],
                  "stub": ["OS thread identity and UI queue (simulator) for dispatch='ui'"]}

    # ------------------------------------------------------------------ generation
    def gen(self, seed):
        c = stream(seed, "config")
        r = stream(seed, "ops")
        npool = deep(c, [2, 3, 4, 5], [6, 7])
        nh = deep(c, [1, 1, 2, 3], [4, 5])
        allow_opt = c.random() < 0.25
        deferred = c.random() < 0.2
        handlers = []
        for j in range(nh):
            expr = G.gen_expr(c, allow_opt=allow_opt)
            form = "obj" if (G.has_opt(expr) or c.random() < 0.35) else "text"
            handlers.append({"id": "h%d" % j, "root": 0 if c.random() < 0.8 else c.randrange(npool),
                             "expr": expr, "form": form,
                             "dispatch": "ui" if (deferred and c.random() < 0.6) else "same"})
        if c.random() < 0.2 and npool >= 2:
            # the same function observing the same expression from a second root (for
            # value-object worlds preferably a root that EQUALS the first one)
            b = handlers[0]
            others = [j for j in range(npool) if j != b["root"]]
            same_parity = [j for j in others if j % 2 == b["root"] % 2]
            handlers.append(dict(b, id=b["id"] + "~", twin_of=b["id"],
                                 root=c.choice(same_parity or others)))
        pre = c.choice([0, 0, 2, 5])
        nops = deep(c, [3, 6, 10, 16, 24, 30], [45, 60])
        gc_mode = c.choice(["explicit", "explicit", "explicit", "storm"])
        k1_witness = False
        er = stream(seed, "env")
        nested_rate = c.choice([0.0, 0.0, 0.15, 0.4])
        # value objects: links can be re-assigned an equal but distinct node
        node_cls = c.choice([None, None, None, "EqNode"])
        ops = []
        for _ in range(nops + pre):
            x = r.random()
            if x < 0.03:
                ops.append({"k": "gc"})
            elif x < 0.06:
                ops.append({"k": "drop", "o": r.randrange(npool + 2)})
            elif x < 0.068:
                ops.append(G.gen_detached_op(r, npool))
            elif x < 0.08:
                ops.append({"k": "redefine", "o": r.randrange(npool + 1),
                            "name": r.choice(["value", "child", "children", "children", "table",
                                              "group"])})
            elif x < 0.10:
                ops.append({"k": "del_attr", "o": r.randrange(npool + 1),
                            "name": r.choice(["child", "children", "children", "table", "group"])})
            elif x < 0.125:
                # an instance trait that carries the metadata '+tag' filters on
                ops.append({"k": "add_tagged", "o": r.randrange(npool + 1)})
                if r.random() < 0.5:
                    ops[-1]["like"] = r.randrange(npool + 1)
            elif allow_opt and x < 0.20:
                ops.append(r.choice([{"k": "add_trait", "o": r.randrange(npool)},
                                     {"k": "add_trait", "o": r.randrange(npool),
                                      "dflt": G.gen_ref(r, npool, 0.3, 0.0)},
                                     {"k": "read_extra", "o": r.randrange(npool)},
                                     # (a trait whose constant default is a node)
                                     {"k": "add_trait", "o": r.randrange(npool),
                                      "dflt": G.gen_ref(r, npool, 0.3, 0.0)},
                                     {"k": "read_extra", "o": r.randrange(npool)},
                                     # (the definition object of another node's trait)
                                     {"k": "add_trait", "o": r.randrange(npool),
                                      "like": r.randrange(npool)},
                                     {"k": "set_extra", "o": r.randrange(npool),
                                      "v": G.gen_ref(r, npool, 0.2, 0.1)}]))
            elif deferred and x < 0.18:
                ops.append(r.choice([{"k": "thread", "name": r.choice(["main", "w1"])},
                                     {"k": "deliver", "n": r.choice([1, 2, 99]), "i": r.randrange(6)}]))
            else:
                ops.append(G.gen_graph_op(r, npool))
                while node_cls == "EqNode" and ops[-1]["k"] in ("set", "set_group"):
                    # which of two equal members a set operation keeps is not
                    # specified (not even for the built-in): value objects stay
                    # out of sets
                    ops[-1] = G.gen_graph_op(r, npool)
                if er.random() < nested_rate:
                    # non-conflicting re-entrancy: from inside a handler, assign a leaf of a
                    # node whose matched status the in-flight op does not change
                    ops[-1]["env"] = [{"at": "h:any", "nth": er.choice([1, 1, 2]),
                                       "do": "nested_probe", "o": er.randrange(npool + 2),
                                       "name": er.choice(["value", "label", "tagged"])}]
        return {"prop": ID, "seed": seed,
                "config": {"npool": npool, "handlers": handlers, "pre": pre,
                           # value objects: links re-assigned an equal but distinct node
                           "node_cls": node_cls,
                           "allow_k1": k1_witness, "gc_mode": gc_mode},
                "ops": ops}

    # ------------------------------------------------------------------ execution
    def execute(self, trace, env):
        from traits.observation import api as oapi
        cfg = trace["config"]
        self._pushed = False
        world = G.World(env, cfg["npool"], classes=cfg.get("node_cls") or None)
        self._world = world
        sched = Sched(env)
        self._sched = sched
        sched.install()
        self._gc_thresh = gc.get_threshold()
        if cfg.get("gc_mode") == "storm":
            # cyclic GC at every opportunity (on CPython 3.12 collections happen only on
            # the eval breaker, i.e. at byte-code boundaries: this visits all of them)
            # (young generations at every opportunity; the oldest one is collected by hand at
            # the end of every eighth op: when the interpreter would start a full collection of its
            # own depends on how large the process heap has grown, i.e. on earlier runs)
            gc.collect()
            gc.enable()
            gc.set_threshold(1, 1, 1 << 30)
            env.probe("gc-storm-run")
        routed = []
        oapi.push_exception_handler(lambda ev: routed.append(ev), reraise_exceptions=False)
        self._pushed = True
        records = []
        handlers = [Handler(s) for s in cfg["handlers"]]
        for h in handlers:
            h.fn = mk_handler(h.id, records, sched, env)
        for h in handlers:
            # a twin registers the very same function with the same expression on
            # another root: one more call per change that both roots reach
            base = [b for b in handlers if b.id == h.spec.get("twin_of")]
            if base:
                h.fn = base[0].fn
        registered = False
        env.actions["nested_probe"] = lambda ev: None     # armed per op by arm_nested
        self.origin_ctr = 0
        pending_expect = {}     # (origin, hid) -> expectation awaiting a deferred delivery
        stats = {"expected_call": 0, "expected_silent": 0, "graph_changes": 0}
        allow_k1 = cfg.get("allow_k1", False)
        world.allow_k3 = cfg.get("allow_k3", False)
        world.del_enabled = True
        world.redefine_enabled = True
        world.detached_enabled = True
        self._allow_k4 = cfg.get("allow_k4", False)
        ops = trace["ops"]
        for i, op in enumerate(ops):
            env.begin_op(i, op)
            k = op["k"]
            if not registered and i >= cfg["pre"]:
                registered = self.register_all(world, handlers, i, allow_k1)
            if k == "thread":
                sched.switch(op["name"])
            elif k == "deliver":
                for _ in range(min(op["n"], 100)):
                    if not sched.deliver(op.get("i", 0)):
                        break
                self.settle(records, pending_expect, sched, i)
            else:
                self.step(world, handlers if registered else [], op, i, env, sched, records,
                          pending_expect, stats, allow_k1)
                if registered and k not in ("gc", "drop"):
                    # probe phase: a fresh unique value on every pool object
                    pre = {h.id: G.match(h.expr, world.model(h.root_uid))[0] for h in handlers}
                    for j in range(len(world.mnodes)):
                        for name in ("value", "label", "tagged"):
                            self.step(world, handlers, {"k": "probe", "o": j, "name": name}, i,
                                      env, sched, records, pending_expect, stats, allow_k1,
                                      probe=True, pre=pre)
            if cfg.get("gc_mode") == "storm" and i % 8 == 7:
                gc.collect()        # (the oldest generation: by hand, now and then)
            env.end_op()
        if not registered:
            registered = self.register_all(world, handlers, len(ops), allow_k1)
        # final drain: bounded liveness of deferred delivery
        env.begin_op(len(ops), {"k": "drain"})
        ok = sched.drain()
        env.end_op()
        if not ok or sched.delivered != sched.enqueued:
            raise Violation("C08.drain", "deferred queue: %d enqueued, %d delivered"
                            % (sched.enqueued, sched.delivered), None)
        self.settle(records, pending_expect, sched, len(ops), final=True)
        if sched.escaped:
            raise Violation("C08.handler-exception", "a deferred handler call failed: %r"
                            % (sched.escaped[0][2],), None)
        if routed:
            raise Violation("C08.handler-exception",
                            "an exception was routed to the observe exception handler", None)
        env.nontrivial = (stats["expected_call"] > 0 and stats["expected_silent"] > 0
                          and stats["graph_changes"] > 0)
        env.probe("expected-calls", stats["expected_call"])
        env.probe("expected-silent", stats["expected_silent"])

    def register_all(self, world, handlers, step, allow_k1=False):
        """Register every handler on its root - unless the graph built by the
        pre-registration ops already aliases levels for one of them (known
        finding K1): then registration is postponed to a later step."""
        if not allow_k1:
            for h in handlers:
                rm = world.mnodes[world.idx(h.spec["root"])]
                if G.match(h.expr, rm)[2]:
                    world.env.probe("k1-registration-postponed")
                    return False
        world.pinned_uids = set()
        for h in list(handlers):
            # a twin whose root index resolves to its base's root would be the same
            # registration once more (counted, not called twice): left out
            base = [b for b in handlers if b.id == h.spec.get("twin_of")]
            if base and world.idx(h.spec["root"]) == world.idx(base[0].spec["root"]):
                handlers.remove(h)
        for h in handlers:
            ri = world.idx(h.spec["root"])
            root = world.nodes[ri]
            h.root_uid = root.uid
            world.pinned_uids.add(root.uid)
            if h.spec["form"] == "text":
                expr = G.render_text(h.expr)
            else:
                expr = G.render_obj(h.expr)
            _, e = sut(root.observe, h.fn, expr, dispatch=h.spec["dispatch"])
            if e is not None:
                raise Violation("C08.registration", "observe(%s) raised %r"
                                % (G.render_text(h.expr) if not G.has_opt(h.expr) else "<expr>", e),
                                step)
        return True

    # one op (or probe) ------------------------------------------------------------
    def step(self, world, handlers, op, i, env, sched, records, pending_expect, stats,
             allow_k1, probe=False, pre=None):
        k = op["k"]
        if not probe and handlers and k not in ("gc", "drop", "probe") and not allow_k1:
            # model-side guard for known finding K1: refuse ops after which one
            # observable would be matched at two depths of one branch
            dry = world.dry_clone()
            dries = [dry]
            if k == "set_extra":
                # an assignment over a never-read trait materialises its constant
                # default as the old value: that transient graph counts as well
                tm = dry.mnodes[dry.idx(op.get("o", 0))]
                if tm.has_extra and tm.extra is G.UNSET and tm.extra_default is not None:
                    cnt0 = {h.id: G.match_counts(h.expr, dry.model(h.root_uid))
                            for h in handlers}
                    tm.extra = tm.extra_default
                    trans = dry.dry_clone()
                    dries.append(trans)
                    if not self._allow_k4:
                        # known finding K4: the maintainers "remove" from that default
                        # hooks it never got; if the default object carries equal hooks
                        # of the same handler along another path, those are lost
                        for h in handlers:
                            a = cnt0[h.id]
                            b = G.match_counts(h.expr, dry.model(h.root_uid))
                            if any(a.get(key, 0) and b[key] > a[key] for key in b):
                                env.log("k4-guard-skip", k)
                                env.probe("k4-guard-skip")
                                env.token("k4skip")
                                return
            dry.apply(op, i)
            for h in handlers:
                if any(G.match(h.expr, d.model(h.root_uid))[2] for d in dries):
                    env.log("k1-guard-skip", k)
                    env.probe("k1-guard-skip")
                    env.token("k1skip")
                    return
        self.origin_ctr += 1
        origin = self.origin_ctr
        sched.now = origin
        rec0 = len(records)
        if op.get("env") and handlers and not probe:
            self.arm_nested(world, handlers, op, i, env, sched, records, pending_expect, stats)
        try:
            changes = world.apply(op, i)
        finally:
            sched.now = None
            env.actions["nested_probe"] = lambda ev: None
        if pre is None:
            # Whether the changed observable itself is matched does not depend on
            # its own new value (absent level aliasing, which the guard excludes),
            # so it is evaluated on the post-state - which also covers container
            # defaults that the op materialised (and thereby hooked) on the way.
            pre = {}
            for h in handlers:
                pre[h.id] = G.match(h.expr, world.model(h.root_uid))[0]
        if not probe and k not in ("gc", "drop"):
            t = world.idx(op.get("o", 0))
            world.check_structure(i, only=[(world.nodes[t], world.mnodes[t])])
        pattern = []
        for ch in changes:
            if ch.kind == "read":
                continue
            for h in handlers:
                exp = expectation(ch, pre[h.id])
                env.oracle_evals += 1
                if exp is None:
                    stats["expected_silent"] += 1
                    pattern.append(0)
                else:
                    stats["expected_call"] += 1
                    pattern.append(1)
                pending_expect[(origin, h.id)] = (exp, ch, i, describe(op, world), probe)
            if not probe and ch.changed:
                stats["graph_changes"] += 1
        # anything recorded for this origin by a handler without expectation
        self.settle(records, pending_expect, sched, i, upto_origin=origin, rec0=rec0)
        if not probe:
            env.token(k, op.get("op", {}).get("k"), tuple(pattern))
            env.cover(k, op.get("op", {}).get("k"), bool(pattern and max(pattern)))

    def arm_nested(self, world, handlers, op, i, env, sched, records, pending_expect, stats):
        """Install the action for 'nested_probe' environment events of this op.
        A nested leaf assignment is allowed only on a node whose matched status
        is the same before and after the in-flight op for every handler (whether
        its hooks are already/still in place mid-notification is then moot)."""
        before = {h.id: G.match(h.expr, world.model(h.root_uid))[0] for h in handlers}
        dry = world.dry_clone()
        dry.apply(op, i)
        after = {h.id: G.match(h.expr, dry.model(h.root_uid))[0] for h in handlers}
        uid_of = {id(m): m.uid for m in [x[1] for x in world.by_uid.values()]}
        uid_of_dry = {id(x[1]): x[1].uid for x in dry.by_uid.values()}

        def status(matchsets, table, uid, name):
            out = []
            for h in handlers:
                out.append(any(k[0] == "t" and table.get(k[1]) == uid and k[2] == name
                               for k in matchsets[h.id]))
            return out
        depth = [0]

        def act(ev):
            if depth[0] or not world.mnodes:
                return
            j = world.idx(ev["o"])
            m = world.mnodes[j]
            name = ev["name"]
            if name not in m.traits():
                return
            st0 = status(before, uid_of, m.uid, name)
            st1 = status(after, uid_of_dry, m.uid, name)
            if st0 != st1:
                env.probe("nested-probe-unstable-skipped")
                return
            depth[0] += 1
            outer = sched.now
            self.origin_ctr += 1
            norigin = self.origin_ctr
            sched.now = norigin
            try:
                changes = world.apply({"k": "probe", "o": j, "name": name}, i)
            finally:
                sched.now = outer
                depth[0] -= 1
            env.probe("nested-probe-executed")
            for ch in changes:
                for h, want in zip(handlers, st0):
                    exp = ("must", "trait") if want else None
                    if want:
                        stats["expected_call"] += 1
                    else:
                        stats["expected_silent"] += 1
                    pending_expect[(norigin, h.id)] = (exp, ch, i, "nested " + describe(
                        {"k": "probe", "o": j, "name": name}, world), True)
        env.actions["nested_probe"] = act

    def settle(self, records, pending_expect, sched, step, final=False, upto_origin=None, rec0=0):
        """Compare recorded handler calls with expectations whose delivery is
        complete (synchronous ones right away, deferred ones once nothing of
        that origin is queued any more)."""
        if not records and not pending_expect:
            return
        queued = {(e["origin"]) for e in sched.queue}
        by = {}
        for rec in records:
            by.setdefault((rec["origin"], rec["h"]), []).append(rec)
        keep = []
        for key in sorted(set(pending_expect) | set(by)):
            origin, hid = key
            if origin in queued and not final:
                keep.extend(by.get(key, ()))
                continue
            recs = by.get(key, [])
            if hid.endswith("~") and (origin, hid[:-1]) in pending_expect:
                continue                 # settled together with its base registration
            item = pending_expect.pop(key, None)
            if item is None:
                if recs:
                    raise Violation("C08.spurious-call",
                                    "handler %s called (%s) with no change matched by its "
                                    "expression" % (hid, show_event(recs[0]["ev"])), step)
                continue
            exp, ch, opi, desc, probe = item
            twin = pending_expect.pop((origin, hid + "~"), None)
            if twin is None:
                check_calls(hid, exp, ch, recs, opi, desc, probe)
                continue
            # the same function is registered on two roots: one call per root that
            # reaches the change
            exps = [e for e in (exp, twin[0]) if e is not None]
            n_must = sum(1 for e in exps if e[0] == "must")
            if not exps:
                check_calls(hid, None, ch, recs, opi, desc, probe)
                continue
            if not (n_must <= len(recs) <= len(exps)):
                raise Violation("C08.call-count",
                                "%s%s: handler %s is registered on two roots, %d of which reach "
                                "the change, but it was called %d times"
                                % ("probe " if probe else "", desc, hid, len(exps), len(recs)), opi)
            for rec in recs:
                check_calls(hid, exps[0], ch, [rec], opi, desc, probe)
        records[:] = keep

    def cleanup(self):
        from traits.observation import api as oapi
        if getattr(self, "_gc_thresh", None) is not None:
            gc.set_threshold(*self._gc_thresh)
            gc.disable()
            self._gc_thresh = None
        s = getattr(self, "_sched", None)
        if s is not None:
            s.uninstall()
            self._sched = None
        if getattr(self, "_pushed", False):
            oapi.pop_exception_handler()
            self._pushed = False
        w = getattr(self, "_world", None)
        if w is not None:
            w.close()
            self._world = None

    # ------------------------------------------------------------------ shrinking
    def simplify_trace(self, trace):
        cfg = trace["config"]
        hs = cfg["handlers"]
        if len(hs) > 1:
            for j in range(len(hs)):
                t = dict(trace)
                t["config"] = dict(cfg, handlers=hs[:j] + hs[j + 1:])
                yield t
        for j, h in enumerate(hs):
            if len(h["expr"]) > 1:
                for b in range(len(h["expr"])):
                    t = dict(trace)
                    h2 = dict(h, expr=h["expr"][:b] + h["expr"][b + 1:])
                    t["config"] = dict(cfg, handlers=hs[:j] + [h2] + hs[j + 1:])
                    yield t
            if h["dispatch"] != "same":
                t = dict(trace)
                t["config"] = dict(cfg, handlers=hs[:j] + [dict(h, dispatch="same")] + hs[j + 1:])
                yield t
        if cfg["npool"] > 2:
            t = dict(trace)
            t["config"] = dict(cfg, npool=cfg["npool"] - 1)
            yield t
        if cfg["pre"] > 0:
            t = dict(trace)
            t["config"] = dict(cfg, pre=0)
            yield t

    def coverage_report(self, cells):
        return {"measure": "(graph op, container mutator, some handler expected a call) cells",
                "cells_hit": len(cells),
                "ops_with_expected_calls": len([c for c in cells if c[2]])}


# ---------------------------------------------------------------------------

def mk_handler(hid, records, sched, env):
    def handler(event):
        records.append({"h": hid, "origin": sched.cur_origin(), "ev": event})
        env.point("h:any", hid)
        env.log("h:" + hid, type(event).__name__)
    return handler


def expectation(ch, notifying):
    """-> None (no call expected) or ('must' | 'may', kind)"""
    if ch.kind == "trait":
        if G.tkey(ch.mobj, ch.name) in notifying and ch.changed:
            return ("must", "trait")
        return None
    if ch.kind == "trait_added":
        if G.tkey(ch.mobj, "trait_added") in notifying:
            return ("must", "trait_added")
        return None
    if ch.kind in ("list", "dict", "set"):
        if G.ckey(ch.mcont) in notifying:
            return ("must" if ch.changed else "may", ch.kind)
        return None
    return None


def check_calls(hid, exp, ch, recs, step, desc, probe):
    where = "%s%s" % ("probe " if probe else "", desc)
    if exp is None:
        if recs:
            raise Violation("C08.call-for-unmatched",
                            "%s: handler %s called (%s) although the changed object/trait is not "
                            "reachable along its expression (or the link is silent)"
                            % (where, hid, show_event(recs[0]["ev"])), step)
        return
    need, kind = exp
    if len(recs) > 1 or (need == "must" and len(recs) != 1):
        raise Violation("C08.call-count",
                        "%s: handler %s called %d times, expected exactly once (%s is reachable "
                        "along its expression)" % (where, hid, len(recs),
                                                   "N%d.%s" % (ch.mobj.uid, ch.name)), step)
    for rec in recs:
        ev = rec["ev"]
        tname = type(ev).__name__
        try:
            if kind == "trait":
                if tname != "TraitChangeEvent":
                    raise AssertionError("event type %s" % tname)
                if ev.object is not ch.obj or ev.name != ch.name:
                    raise AssertionError("event names %r.%s" % (ev.object, ev.name))
                if ch.name in ("value", "label", "tagged"):
                    if ev.new != ch.new or ev.old != ch.old:
                        raise AssertionError("old/new %r -> %r, assigned %r -> %r"
                                             % (ev.old, ev.new, ch.old, ch.new))
                else:
                    if ev.new is not ch.new:
                        raise AssertionError("new is %r, assigned %r" % (ev.new, ch.new))
                    if type(ch.old) is not tuple and ev.old is not ch.old:
                        raise AssertionError("old is %r, was %r" % (ev.old, ch.old))
            elif kind == "trait_added":
                if tname != "TraitChangeEvent" or ev.name != "trait_added" or ev.object is not ch.obj:
                    raise AssertionError("expected trait_added event, got %s" % show_event(ev))
            elif kind == "list":
                if tname != "ListChangeEvent" or ev.object is not ch.cont:
                    raise AssertionError("expected ListChangeEvent of the mutated list, got %s"
                                         % show_event(ev))
                before = [uidof(x) for x in ch.before]
                after = [uidof(x) for x in ch.after]
                rep = c05.apply_event(before, ev.index, [uidof(x) for x in ev.removed],
                                      [uidof(x) for x in ev.added])
                if rep != after:
                    raise AssertionError("replaying the event on %r gives %r, list is %r"
                                         % (before, rep, after))
            elif kind == "dict":
                if tname != "DictChangeEvent" or ev.object is not ch.cont:
                    raise AssertionError("expected DictChangeEvent of the mutated dict, got %s"
                                         % show_event(ev))
                c06.check_obs_event({a: uidof(b) for a, b in ch.before.items()},
                                    {a: uidof(b) for a, b in ch.after.items()},
                                    {a: uidof(b) for a, b in ev.removed.items()},
                                    {a: uidof(b) for a, b in ev.added.items()})
            elif kind == "set":
                if tname != "SetChangeEvent" or ev.object is not ch.cont:
                    raise AssertionError("expected SetChangeEvent of the mutated set, got %s"
                                         % show_event(ev))
                c07.check_event({uidof(x) for x in ch.before}, {uidof(x) for x in ch.after},
                                {uidof(x) for x in ev.removed}, {uidof(x) for x in ev.added})
        except AssertionError as a:
            raise Violation("C08.event-content", "%s: handler %s: %s" % (where, hid, a), step)


def uidof(x):
    if isinstance(x, list):
        return [uidof(y) for y in x]
    return getattr(x, "uid", x)


def show_event(ev):
    t = type(ev).__name__
    if t == "TraitChangeEvent":
        return "%s %r.%s" % (t, ev.object, ev.name)
    return t


def describe(op, world):
    k = op["k"]
    o = world.mnodes[world.idx(op.get("o", 0))].uid if world.mnodes else "?"
    if k == "probe":
        return "N%s.%s = fresh" % (o, op.get("name", "value"))
    inner = op.get("op", {}).get("k")
    return "%s%s on N%s" % (k, ("/" + inner) if inner else "", o)


PROP = Prop()
