"""C14 - pickling, deep copying and cloning preserve state and keep traits live.

World: a pool of Rec objects (simtraits.zoo14: transient traits, ReadOnly,
copy metadata ref/shallow/deep, nested containers, Instance graph, declared
observers, a cached observed property).  A generated history runs; restart
(pickle -> drop -> unpickle) and fork (deepcopy of the pool, clone_traits /
deepcopy / copy of one object) happen at generated points, after which a
liveness battery runs on the copy and the history continues on it.  Stand-alone
trait definition objects are round-tripped and compared with their originals.
"""
import copy
import gc
import pickle

from ..core import Violation, HarnessError, stream, sut, exc_name
from ..core import deep
from ..values import OBJECTS, raw
from . import c04, c05, c06, c07

ID = "C14"
UNSET = "<unset>"

LISTS = {"tags": ("int", (0, 5)), "stags": ("int", None)}
TRAIT_DEFS = ["Int", "Str", "Float", "Range", "Enum", "ListInt", "Tuple", "Either", "Map",
              "PropInt", "Instance", "DictStrInt", "CInt", "Bool",
              "Complex", "CFloat", "CComplex", "RangeF", "RangeFE", "RangeLow", "Callable", "Any",
              "SetInt", "Union", "EitherNone", "PrefixList", "PrefixMap", "Constant", "Event",
              "Bytes", "String", "Type", "TupleAny", "ValidatedTuple", "WeakRef", "ListComplex",
              "TupleComplex", "BaseInt"]
RT_VALUES = [0, 1, 5, -3, 2.5, "a", "5", None, True, (1, "a"), [1, 2], ["x"], {"k": 1}, 11, "yes",
             1j, b"x", 0.5, (1, 2), (2, 1), "al", len, {1, 2}, [1j], (1j, 2)]


def make_trait_def(name):
    """The CTrait of a trait definition (a fresh clone of the class trait)."""
    from ..zoo14 import Defs
    return Defs.class_traits()[name]


def new_model(uid):
    return {"uid": uid, "value": 0, "ro": UNSET, "scratch": 7, "tags": [], "stags": [],
            "grid": [], "table": {}, "group": set(), "child": None, "friend": None,
            "children": [], "members": set(), "sp": 0, "blob": None, "keep": 0, "pv": UNSET}


class Prop:
    ID = ID
    LEVEL = "exploration"
    CHUNK = 40
    GC_EVERY = 5
    RUN_TIMEOUT = 10.0
    DIGEST_EVERY = 20
    RULE = ("seeded random histories (4-30 ops) on a pool of 2-4 Rec objects: scalar / ReadOnly / "
            "transient assignments, list/dict/set mutators with valid and invalid items on "
            "bounded, shallow-copy, nested-list, dict-of-list and set traits, Instance graph "
            "edits (deep and copy='ref' links, shared and cyclic), then at generated points "
            "restart (pickle protocols 2-5 of the whole pool), fork (deepcopy of the pool) or "
            "copy of one object (clone_traits deep/None/shallow, deepcopy, copy) followed by a "
            "liveness battery on the copy (first of all every cached property against the copy's "
            "own state - a class-level handler reads a two-dependency cached property while the "
            "object is being filled -, then invalid items at every depth, items events, declared "
            "observers, observed property, ReadOnly second write) with the history continuing on "
            "restored pools, plus round trips (pickle/copy/deepcopy) of 38 kinds of trait "
            "definition objects compared with their originals on a value set; non-trivial = at "
            "least one restart/fork/copy happened on a non-default state and the battery ran; "
            "distinct = distinct abstract traces")
    ASSUMPTIONS = ["snapshots compare by read-equivalence: pickling/cloning materialises defaults "
                   "on the original (an unset ReadOnly becomes Undefined in __dict__)",
                   "sharing is judged per copy mode: copy='ref' links are supposed to share; plain "
                   "deepcopy copies Dict items by reference (no copy metadata on Dict) - the Dict "
                   "values used here are lists, which are re-wrapped, so no container is shared"]

    # ------------------------------------------------------------------ generation
    def gen(self, seed):
        c = stream(seed, "config")
        r = stream(seed, "ops")
        npool = deep(c, [2, 3, 4], [5, 6])
        nops = deep(c, [4, 8, 12, 18, 24, 30], [45, 60])
        invalid = c.choice([0.05, 0.15])
        restart_rate = c.choice([0.05, 0.1, 0.2])
        ctr = [100]

        def fresh():
            ctr[0] += 1
            return ctr[0]
        ops = []
        for _ in range(nops):
            x = r.random()
            o = r.randrange(npool)
            if x < restart_rate:
                op = r.choice([
                    {"k": "restart", "proto": r.choice([2, 3, 4, 5])},
                    {"k": "fork_all"},
                    {"k": "copy_one", "o": o, "mode": r.choice(["clone_deep", "clone_none",
                                                                 "clone_shallow", "deepcopy"])},
                    {"k": "copy_one", "o": o, "mode": r.choice(["clone_deep", "clone_none",
                                                                 "clone_shallow", "deepcopy"])}])
            elif x < restart_rate + 0.05:
                op = {"k": "ctrait", "def": r.randrange(len(TRAIT_DEFS)),
                      "how": r.choice(["pickle2", "pickle5", "copy", "deepcopy"])}
            elif x < restart_rate + 0.08:
                op = {"k": "gc"}
            else:
                op = self.gen_edit(r, o, npool, fresh, invalid)
            ops.append(op)
        return {"prop": ID, "seed": seed, "config": {"npool": npool}, "ops": ops}

    @staticmethod
    def gen_edit(r, o, npool, fresh, invalid):
        def item(kind):
            return lambda: c04.gen_item(r, kind, fresh, invalid)
        x = r.random()
        if x < 0.08:
            return {"k": "value", "o": o,
                    "v": {"t": "int", "v": fresh()} if r.random() > invalid else {"t": "str", "v": "x"}}
        if x < 0.13:
            return {"k": "ro", "o": o, "v": fresh()}
        if x < 0.17:
            return {"k": "scratch", "o": o, "v": fresh()}
        if x < 0.30:
            name = r.choice(["tags", "tags", "stags"])
            return {"k": "list", "o": o, "name": name,
                    "op": c05.gen_list_op(r, list(range(r.randint(0, 4))), item("int"))}
        if x < 0.38:
            return {"k": "grid_outer", "o": o,
                    "op": c05.gen_list_op(r, list(range(r.randint(0, 3))), item("listint3"),
                                          [k for k in c05.OPS if k not in ("sort", "remove")])}
        if x < 0.46:
            return {"k": "grid_inner", "o": o, "row": r.randrange(3),
                    "op": c05.gen_list_op(r, list(range(r.randint(0, 3))), item("int"))}
        if x < 0.56:
            def key(lookup=False):
                return c04.gen_item(r, "str", fresh, 0.0 if lookup else invalid, lookup)
            op, _, _ = c06.gen_dict_op(r, key, item("listint3"))
            return {"k": "table", "o": o, "op": op}
        if x < 0.63:
            return {"k": "table_inner", "o": o, "key": r.randrange(3),
                    "op": c05.gen_list_op(r, list(range(r.randint(0, 3))), item("int"))}
        if x < 0.72:
            def sitem(validating):
                return c04.gen_item(r, "int", fresh, invalid if validating else 0.0,
                                    not validating, True)
            op, _ = c07.gen_set_op(r, sitem, False, c04.SET_OPS)
            return {"k": "group", "o": o, "op": op}
        if x < 0.80:
            return {"k": r.choice(["child", "friend"]), "o": o,
                    "v": r.choice([None] + list(range(npool)))}
        if x < 0.88:
            return {"k": "children", "o": o,
                    "vs": [r.randrange(npool) for _ in range(r.randint(0, 3))]}
        if x < 0.92:
            return {"k": "children_append", "o": o,
                    "v": r.randrange(npool) if r.random() > invalid else "bad"}
        if x < 0.95:
            return {"k": r.choice(["members_add", "members_add", "members_discard"]), "o": o,
                    "v": r.randrange(npool)}
        if x < 0.98:
            return {"k": r.choice(["sp", "pv", "pv", "blob", "blob", "keep"]), "o": o,
                    "v": fresh()}
        return {"k": "bump", "o": o}

    # ------------------------------------------------------------------ execution
    def execute(self, trace, env):
        from ..zoo14 import Rec
        from traits.trait_errors import TraitError
        self.TraitError = TraitError
        self.env = env
        npool = trace["config"]["npool"]
        pool = [Rec(uid=i) for i in range(npool)]
        models = [new_model(i) for i in range(npool)]
        self._models = models
        self._allow_k5 = trace["config"].get("allow_k5", False)
        self.originals = []      # (objects, snapshots) frozen at fork time
        stats = {"copies": 0, "nondefault": 0}
        for i, op in enumerate(trace["ops"]):
            env.begin_op(i, op)
            k = op["k"]
            if k == "gc":
                gc.collect()
            elif k == "ctrait":
                self.ctrait_roundtrip(op, i)
            elif k == "restart":
                new, e = sut(lambda: pickle.loads(pickle.dumps(pool, op["proto"])))
                if e is not None:
                    raise Violation("C14.restart", "pickle round trip raised %r" % (e,), i)
                self.compare_pool(pool, new, models, "pickle", i, ext_friend=False)
                self.check_post_only("pickle", op["proto"], i)
                pool = new
                for m in models:
                    m["scratch"] = 7
                stats["copies"] += 1
                stats["nondefault"] += any(self.nondefault(m) for m in models)
                self.battery(pool, models, i)
            elif k == "fork_all":
                new, e = sut(copy.deepcopy, pool)
                if e is not None:
                    raise Violation("C14.fork", "deepcopy of the pool raised %r" % (e,), i)
                self.compare_pool(pool, new, models, "deepcopy", i, ext_friend=True)
                self.check_post_only("deepcopy", None, i)
                self.check_post_only("clone", None, i)
                # a deep copy stores what the prototyped attribute read as at that moment
                # as a local value of the copy (pickling does not)
                reads = [self.pv_reads(m) for m in models]
                for m, rd in zip(models, reads):
                    if m["pv"] is UNSET and rd != "<unreadable>" and not isinstance(rd, frozenset):
                        m["pv"] = ("either", rd)
                self.originals.append((pool, [self.snapshot(x) for x in pool]))
                # copy='ref' links of the copies point at the originals
                for j, m in enumerate(models):
                    if m["friend"] is not None:
                        m["friend"] = ("ext", pool[m["friend"]] if isinstance(m["friend"], int)
                                       else m["friend"][1])
                    m["scratch"] = 7
                pool = new
                stats["copies"] += 1
                stats["nondefault"] += any(self.nondefault(m) for m in models)
                self.battery(pool, models, i)
            elif k == "copy_one":
                self.copy_one(pool, models, op, i)
                stats["copies"] += 1
                stats["nondefault"] += self.nondefault(models[op["o"] % len(models)])
            else:
                self.edit(pool, models, op, i)
            env.end_op()
            self.check_originals(i)
            env.token(k, op.get("mode"), op.get("op", {}).get("k") if isinstance(op.get("op"), dict) else None)
        env.nontrivial = stats["copies"] > 0 and stats["nondefault"] > 0
        env.probe("copies", stats["copies"])

    @staticmethod
    def nondefault(m):
        return bool(m["value"] or m["tags"] or m["grid"] or m["table"] or m["group"]
                    or m["children"] or m["child"] is not None or m["ro"] is not UNSET)

    # snapshots ---------------------------------------------------------------------
    @staticmethod
    def snapshot(x):
        from traits.api import Undefined
        d = x.__dict__
        ro = d.get("ro", Undefined)
        return (d.get("value", 0), None if ro is Undefined else ("set", ro),
                list(d.get("tags", ())), list(d.get("stags", ())),
                [list(r) for r in d.get("grid", ())],
                {a: list(b) for a, b in d.get("table", {}).items()},
                set(d.get("group", ())),
                getattr(d.get("child"), "uid", None), getattr(d.get("friend"), "uid", None),
                [c.uid for c in d.get("children", ())],
                sorted(c.uid for c in d.get("members", ())),
                d.get("_spv", 0),
                (list(d["blob"]) if isinstance(d.get("blob"), list) else None),
                d.get("keep", 0),
                # the prototyped attribute by what it READS as (a copy may or may not turn
                # the prototype's value into a local one): local value, else prototype's
                (d["pv"] if "pv" in d else getattr(d.get("child"), "value", "<unreadable>")))

    def model_snapshot(self, m):
        def u(v):
            if v is None:
                return None
            if isinstance(v, tuple):
                return v[1].uid
            return v
        return (m["value"], None if m["ro"] is UNSET else ("set", m["ro"]),
                list(m["tags"]), list(m["stags"]), [list(r) for r in m["grid"]],
                {a: list(b) for a, b in m["table"].items()}, set(m["group"]),
                u(m["child"]), u(m["friend"]), list(m["children"]), sorted(m["members"]),
                m["sp"], m["blob"], m["keep"], self.pv_reads(m))

    def pv_reads(self, m):
        if isinstance(m["pv"], tuple) and m["pv"][0] == "either":
            # after a deep copy: the copy may have stored what the attribute read as at
            # that moment as a local value, or may go on following its prototype - the
            # statement decides neither
            m2 = dict(m, pv=UNSET)
            return frozenset([m["pv"][1], self.pv_reads(m2)])
        if m["pv"] is not UNSET:
            return m["pv"]
        ch = m["child"]
        if ch is None:
            return "<unreadable>"
        if isinstance(ch, tuple):
            return ch[1].value
        return self._models[ch]["value"]

    @staticmethod
    def settle_pv(got, want):
        """Where the model allows several readings of the prototyped attribute,
        take the one the object shows (if it is one of them)."""
        if isinstance(want[-1], frozenset) and got[-1] in want[-1]:
            return want[:-1] + (got[-1],)
        return want

    def check_state(self, x, m, what, step):
        got = self.snapshot(x)
        want = self.settle_pv(got, self.model_snapshot(m))
        self.env.oracle_evals += 1
        if got != want:
            names = ["value", "ro", "tags", "stags", "grid", "table", "group", "child", "friend",
                     "children", "members", "sp", "blob", "keep", "pv"]
            diff = [(n, a, b) for n, a, b in zip(names, got, want) if a != b]
            raise Violation("C14.state", "%s: R%d holds %s" % (
                what, m["uid"], "; ".join("%s=%r (model %r)" % d for d in diff[:3])), step)

    def check_originals(self, step):
        for objs, snaps in self.originals:
            for x, s in zip(objs, snaps):
                if self.snapshot(x) != s:
                    raise Violation("C14.shared-state",
                                    "an object that was copied from changed when its copy was "
                                    "mutated (R%d)" % x.uid, step)

    def check_post_only(self, how, proto, step):
        """An object of a class whose only handler is declared with
        ``@observe(..., post_init=True)``: the copy hears its own changes."""
        from ..zoo14 import PostOnly
        o = PostOnly(v=1)
        o.v = 2
        if how == "pickle":
            c, e = sut(lambda: pickle.loads(pickle.dumps(o, proto)))
        elif how == "deepcopy":
            c, e = sut(copy.deepcopy, o)
        else:
            c, e = sut(o.clone_traits)
        if e is not None:
            raise Violation("C14.copy", "%s of a PostOnly object raised %r" % (how, e), step)
        del c.log[:]
        _, e = sut(setattr, c, "v", 9)
        self.env.oracle_evals += 1
        if e is not None or "post_init_observer" not in c.log or c.v != 9:
            raise Violation("C14.copy-not-live",
                            "%s: a change on the copy did not reach the observer declared with "
                            "post_init=True (class without other handlers): log=%r, raised %r"
                            % (how, list(c.log), e), step)

    def compare_pool(self, old, new, models, how, step, ext_friend):
        if len(new) != len(old):
            raise Violation("C14.copy-shape", "%s returned %d objects" % (how, len(new)), step)
        for o, n, m in zip(old, new, models):
            if type(n) is not type(o) or n is o:
                raise Violation("C14.copy-class", "%s: copy of R%d is %r" % (how, m["uid"], type(n)), step)
            if o.traits_inited() and not n.traits_inited():
                raise Violation("C14.copy-not-live", "%s: the copy of R%d does not report "
                                "traits_inited() (the original does): it still looks as if it "
                                "were under construction" % (how, m["uid"]), step)
            self.check_state(n, m, "after %s" % how, step)
            # (the transient ``log`` is written by the declared observers while the
            # copy is being filled, so only ``scratch`` witnesses transience)
            if n.scratch != 7:
                raise Violation("C14.transient", "%s: transient trait of R%d not back at its "
                                "default (scratch=%r)" % (how, m["uid"], n.scratch), step)
            self.no_shared_containers(o, n, how, step)
            # identity structure inside the new pool
            for name in ("child", "friend"):
                v = m[name]
                nv = n.__dict__.get(name)
                if v is None:
                    continue
                if isinstance(v, tuple):
                    if how == "pickle":
                        # an object outside the pool is pickled along and comes back
                        # as a new object of the same state
                        if nv is None or nv.uid != v[1].uid:
                            raise Violation("C14.copy-identity", "pickle: R%d.%s lost its "
                                            "external referent" % (m["uid"], name), step)
                        m[name] = ("ext", nv)
                        continue
                    want = v[1]
                elif name == "friend" and ext_friend:
                    want = old[v]
                else:
                    want = new[v]
                if nv is not want:
                    raise Violation("C14.copy-identity",
                                    "%s: R%d.%s should be %s" % (
                                        how, m["uid"], name,
                                        "the original object (copy='ref')" if want in old
                                        else "the copied pool object"), step)
            for c, j in zip(n.__dict__.get("children", ()), m["children"]):
                if c is not new[j]:
                    raise Violation("C14.copy-identity", "%s: R%d.children do not point into the "
                                    "copied pool" % (how, m["uid"]), step)
            if {id(c) for c in n.__dict__.get("members", ())} != {id(new[j]) for j in m["members"]}:
                raise Violation("C14.copy-identity", "%s: R%d.members do not point into the "
                                "copied pool" % (how, m["uid"]), step)

    def no_shared_containers(self, o, n, how, step):
        for name in ("tags", "stags", "grid", "table", "group", "children", "members"):
            a, b = o.__dict__.get(name), n.__dict__.get(name)
            if a is not None and a is b:
                raise Violation("C14.shared-container", "%s: R%d.%s is the same container object "
                                "in copy and original" % (how, o.uid, name), step)
        for a, b in zip(o.__dict__.get("grid", ()), n.__dict__.get("grid", ())):
            if a is b:
                raise Violation("C14.shared-container", "%s: inner grid list shared" % how, step)
        ot, nt = o.__dict__.get("table", {}), n.__dict__.get("table", {})
        for key in ot:
            if key in nt and ot[key] is nt[key]:
                raise Violation("C14.shared-container", "%s: inner table list shared" % how, step)

    # copies of one object -------------------------------------------------------------
    def copy_one(self, pool, models, op, step):
        j = op["o"] % len(pool)
        x, m = pool[j], models[j]
        mode = op["mode"]
        if mode == "clone_deep":
            c, e = sut(x.clone_traits, copy="deep")
        elif mode == "clone_none":
            c, e = sut(x.clone_traits)
        elif mode == "clone_shallow":
            c, e = sut(x.clone_traits, copy="shallow")
        elif mode == "deepcopy":
            c, e = sut(copy.deepcopy, x)
        else:
            c, e = sut(copy.copy, x)
        if e is not None:
            raise Violation("C14.copy", "%s of R%d raised %r" % (mode, m["uid"], e), step)
        if type(c) is not type(x) or c is x:
            raise Violation("C14.copy-class", "%s gave %r" % (mode, type(c)), step)
        if mode != "copy" and x.traits_inited() and not c.traits_inited():
            raise Violation("C14.copy-not-live", "%s: the copy of R%d does not report "
                            "traits_inited() (the original does)" % (mode, m["uid"]), step)
        got = self.snapshot(c)
        want = self.settle_pv(got, self.model_snapshot(m))
        # value-level equality (object links compared by uid: copies keep the uid)
        self.env.oracle_evals += 1
        if got != want:
            names = ["value", "ro", "tags", "stags", "grid", "table", "group", "child", "friend",
                     "children", "members", "sp", "blob", "keep", "pv"]
            diff = [(n, a, b) for n, a, b in zip(names, got, want) if a != b]
            raise Violation("C14.state", "%s: copy of R%d holds %s" % (
                mode, m["uid"], "; ".join("%s=%r (model %r)" % d for d in diff[:3])), step)
        if mode != "copy":
            if c.scratch != 7:
                raise Violation("C14.transient", "%s: transient trait not back at its default "
                                "(scratch=%r)" % (mode, c.scratch), step)
        self.no_shared_containers(x, c, mode, step)
        # friend is copy='ref': always the very same object
        fr = x.__dict__.get("friend")
        if fr is not None and c.__dict__.get("friend") is not fr:
            raise Violation("C14.copy-identity", "%s: copy='ref' link was not copied by reference"
                            % mode, step)
        ch = x.__dict__.get("child")
        if ch is not None and mode != "copy" and c.__dict__.get("child") is ch and ch is not x:
            raise Violation("C14.copy-identity", "%s: Instance link (copy='deep' metadata) still "
                            "points at the original child" % mode, step)
        if mode in ("clone_deep", "clone_none", "deepcopy"):
            # Set carries copy='deep': its members are copied with the set (a member
            # that is the object itself becomes the copy)
            orig = x.__dict__.get("members") or ()
            for el in c.__dict__.get("members") or ():
                if any(el is o2 for o2 in orig):
                    raise Violation("C14.copy-identity", "%s: a member of the copied Set is the "
                                    "original's member object (R%d), not a copy"
                                    % (mode, el.uid), step)
        if mode in ("clone_deep", "deepcopy"):
            # ... and so are the objects nested below it, every one of them (the second
            # and third child as much as the first): none shares a container with the
            # object it was copied from
            seen = set()
            todo = [(x, c, 0)]
            while todo:
                xo, co, depth = todo.pop()
                if id(xo) in seen or depth > 3:
                    continue
                seen.add(id(xo))
                pairs = []
                if xo.__dict__.get("child") is not None and co.__dict__.get("child") is not None:
                    pairs.append((xo.__dict__["child"], co.__dict__["child"]))
                pairs.extend(zip(xo.__dict__.get("children") or (),
                                 co.__dict__.get("children") or ()))
                for xn, cn in pairs:
                    self.env.oracle_evals += 1
                    if xn is cn:
                        raise Violation("C14.copy-identity",
                                        "%s: a nested object (R%d) of the copy is the original's "
                                        "object, not a copy" % (mode, xn.uid), step)
                    self.no_shared_containers(xn, cn, mode + " (nested R%d)" % xn.uid, step)
                    if mode == "clone_deep" and isinstance(xn.__dict__.get("blob"), list) \
                            and xn.__dict__["blob"] is cn.__dict__.get("blob"):
                        raise Violation("C14.shared-container",
                                        "clone_traits(copy='deep'): the list held by the untyped "
                                        "attribute of nested object R%d is shared between copy "
                                        "and original" % xn.uid, step)
                    todo.append((xn, cn, depth + 1))
        # liveness battery on the copy; the originals must not move
        before = [self.snapshot(p) for p in pool]
        cm = self.clone_model(m)
        self.battery_one(c, cm, step, others=None)
        if [self.snapshot(p) for p in pool] != before:
            raise Violation("C14.shared-state", "%s: mutating the copy of R%d changed an original"
                            % (mode, m["uid"]), step)
        self.env.cover("copy_one", mode)

    @staticmethod
    def clone_model(m):
        return {"uid": m["uid"], "value": m["value"], "ro": m["ro"], "scratch": 7,
                "tags": list(m["tags"]), "stags": list(m["stags"]),
                "grid": [list(r) for r in m["grid"]],
                "table": {a: list(b) for a, b in m["table"].items()},
                "group": set(m["group"]), "child": m["child"], "friend": m["friend"],
                "children": list(m["children"]), "members": set(m["members"]),
                "sp": m["sp"], "blob": (None if m["blob"] is None else list(m["blob"])),
                "keep": m["keep"],
                "pv": m["pv"]}

    # the liveness battery -------------------------------------------------------------
    def battery(self, pool, models, step):
        # first of all (before anything is changed): every cached property of the
        # restored objects agrees with the restored state
        for x, m in zip(pool, models):
            got, e = sut(getattr, x, "vtotal")
            want = x.value + sum(c.value for c in (x.__dict__.get("children") or []))
            self.env.oracle_evals += 1
            if e is not None or got != want:
                raise Violation("C14.property", "copy of R%d: cached property vtotal reads %r, its "
                                "own state gives %r (%r)" % (m["uid"], got, want, e), step)
        for x, m in zip(pool, models):
            self.battery_one(x, m, step, others=(pool, models))

    def battery_one(self, x, m, step, others):
        T = self.TraitError
        env = self.env

        def reject(f, what):
            before = self.snapshot(x)
            _, e = sut(f)
            env.oracle_evals += 1
            if not isinstance(e, T):
                raise Violation("C14.copy-accepts-invalid",
                                "copy of R%d: %s was not rejected with TraitError (got %r)"
                                % (m["uid"], what, e), step)
            if self.snapshot(x) != before:
                raise Violation("C14.copy-accepts-invalid",
                                "copy of R%d: rejected %s changed the state" % (m["uid"], what), step)

        def expect_log(f, what, *needles):
            del x.log[:]
            _, e = sut(f)
            env.oracle_evals += 1
            if e is not None:
                raise Violation("C14.copy-not-live", "copy of R%d: %s raised %r"
                                % (m["uid"], what, e), step)
            for n in needles:
                if n not in x.log:
                    raise Violation("C14.copy-not-live",
                                    "copy of R%d: %s did not reach %s (log=%r)"
                                    % (m["uid"], what, "the name_items handler"
                                       if n == "legacy_items" else
                                       "the observer declared with post_init=True"
                                       if n == "post_init_observer" else
                                       "the declared observer (" + n + ")",
                                       list(x.log)), step)
        reject(lambda: setattr(x, "value", "x"), "value = 'x'")
        reject(lambda: x.tags.append("x"), "tags.append('x')")
        reject(lambda: x.tags.extend([1] * 9), "tags beyond maxlen")
        reject(lambda: x.stags.append("x"), "stags.append('x')")
        reject(lambda: x.grid.append(["x"]), "grid.append(['x'])")
        reject(lambda: x.grid.append([1, 2, 3, 4]), "grid.append(row beyond maxlen)")
        if m["grid"]:
            reject(lambda: x.grid[0].append("x"), "grid[0].append('x')")
            reject(lambda: x.grid[0].extend([1, 2, 3, 4]), "grid[0] beyond maxlen")
        reject(lambda: x.table.__setitem__(1, [1]), "table[1] = [1]")
        reject(lambda: x.table.__setitem__("k", ["x"]), "table['k'] = ['x']")
        for key in sorted(m["table"]):
            reject(lambda: x.table[key].append("x"), "table[%r].append('x')" % key)
            break
        reject(lambda: x.group.add("x"), "group.add('x')")
        reject(lambda: x.children.append(3), "children.append(3)")
        reject(lambda: setattr(x, "child", 3), "child = 3")
        if m["ro"] is not UNSET:
            reject(lambda: setattr(x, "ro", -1), "second write to the ReadOnly trait")
        # notifications on the copy
        if len(m["tags"]) < 5:
            expect_log(lambda: x.tags.append(1), "tags.append", "legacy_items", "ListChangeEvent")
            m["tags"].append(1)
        else:
            expect_log(lambda: x.tags.pop(), "tags.pop", "legacy_items", "ListChangeEvent")
            m["tags"].pop()
        expect_log(lambda: x.stags.append(2), "stags.append", "ListChangeEvent")
        m["stags"].append(2)
        if m["grid"] and len(m["grid"][0]) < 3:
            expect_log(lambda: x.grid[0].append(5), "grid[0].append", "ListChangeEvent")
            m["grid"][0].append(5)
        for key in sorted(m["table"]):
            if len(m["table"][key]) < 3:
                expect_log(lambda: x.table[key].append(5), "table[k].append", "ListChangeEvent")
                m["table"][key].append(5)
            break
        if 77 not in m["group"]:
            expect_log(lambda: x.group.add(77), "group.add", "legacy_items", "SetChangeEvent")
            m["group"].add(77)
        else:
            expect_log(lambda: x.group.discard(77), "group.discard", "legacy_items", "SetChangeEvent")
            m["group"].discard(77)
        expect_log(lambda: setattr(x, "value", m["value"] + 1), "value change", "TraitChangeEvent",
                   "post_init_observer")
        m["value"] += 1
        # observed property on the copy
        ch = x.__dict__.get("children") or []
        if ch:
            t0, e = sut(getattr, x, "total")
            c0 = ch[0]
            expect_log(lambda: setattr(c0, "value", c0.value + 1), "children[0].value change",
                       "TraitChangeEvent")
            if others is not None:
                pool, models = others
                for p, pm in zip(pool, models):
                    if p is c0:
                        pm["value"] += 1
            elif c0 is x:
                m["value"] += 1
            t1, e = sut(getattr, x, "total")
            want = sum(c.value for c in ch)
            env.oracle_evals += 1
            if e is not None or t1 != want:
                raise Violation("C14.copy-not-live", "copy of R%d: observed property total reads "
                                "%r, recomputation gives %r" % (m["uid"], t1, want), step)
        self.check_state(x, m, "after the liveness battery", step) if others is not None else None

    # history edits ------------------------------------------------------------------------
    def edit(self, pool, models, op, step):
        T = self.TraitError
        k = op["k"]
        j = op["o"] % len(pool)
        x, m = pool[j], models[j]
        env = self.env
        allowed = None
        if k == "value":
            v = raw(op["v"])
            _, e = sut(setattr, x, "value", v)
            if type(v) is int:
                m["value"] = v
            else:
                allowed = {"TraitError"}
        elif k == "ro":
            _, e = sut(setattr, x, "ro", op["v"])
            if m["ro"] is UNSET:
                m["ro"] = op["v"]
            else:
                allowed = {"TraitError"}
        elif k == "scratch":
            _, e = sut(setattr, x, "scratch", op["v"])
            m["scratch"] = op["v"]
        elif k in ("child", "friend"):
            v = op["v"]
            if k == "child" and v is None and m["pv"] is not UNSET and not self._allow_k5:
                # known finding K5: a local value of a prototyped attribute whose
                # prototype link is None cannot be unpickled again
                self.env.probe("k5-guard-skip")
                return
            tgt = None if v is None else pool[v % len(pool)]
            _, e = sut(setattr, x, k, tgt)
            m[k] = None if v is None else v % len(pool)
        elif k == "children":
            idx = [v % len(pool) for v in op["vs"]]
            _, e = sut(setattr, x, "children", [pool[v] for v in idx])
            m["children"] = idx
        elif k == "children_append":
            if op["v"] == "bad":
                _, e = sut(x.children.append, 3)
                allowed = {"TraitError"}
            else:
                v = op["v"] % len(pool)
                _, e = sut(x.children.append, pool[v])
                m["children"].append(v)
        elif k == "sp":
            _, e = sut(setattr, x, "sp", op["v"])
            m["sp"] = op["v"]
        elif k == "keep":
            _, e = sut(setattr, x, "keep", op["v"])
            m["keep"] = op["v"]
        elif k == "blob":
            _, e = sut(setattr, x, "blob", [op["v"], op["v"] + 1])
            m["blob"] = [op["v"], op["v"] + 1]
        elif k == "pv":
            # a local value for the prototyped attribute (validated by the prototype's trait)
            if m["child"] is None:
                return
            _, e = sut(setattr, x, "pv", op["v"])
            m["pv"] = op["v"]
        elif k in ("members_add", "members_discard"):
            v = op["v"] % len(pool)
            if k == "members_add":
                _, e = sut(x.members.add, pool[v])
                m["members"].add(v)
            else:
                _, e = sut(x.members.discard, pool[v])
                m["members"].discard(v)
        elif k == "bump":
            if not m["children"]:
                return
            c = m["children"][0]
            _, e = sut(setattr, pool[c], "value", models[c]["value"] + 1)
            models[c]["value"] += 1
            t, e2 = sut(getattr, x, "total")
            want = sum(models[q]["value"] for q in m["children"])
            if e2 is not None or t != want:
                raise Violation("C14.property", "R%d.total reads %r, recomputation gives %r"
                                % (m["uid"], t, want), step)
        else:
            # container ops through the shared interpreters
            if k == "list":
                name = op["name"]
                ikind, bounds = LISTS[name]
                mc, cont, ck, ik = m[name], getattr(x, name), "list", (ikind,)
            elif k == "grid_outer":
                mc, cont, ck, ik, bounds = m["grid"], x.grid, "list", ("listint3",), None
                if op["op"]["k"] == "imul" and op["op"].get("n", 0) >= 2:
                    return          # would alias inner rows; copies legitimately un-share them
            elif k == "grid_inner":
                if not m["grid"]:
                    return
                r = op["row"] % len(m["grid"])
                mc, cont, ck, ik, bounds = m["grid"][r], x.grid[r], "list", ("int",), (0, 3)
            elif k == "table":
                mc, cont, ck, ik, bounds = m["table"], x.table, "dict", ("str", "listint3"), None
            elif k == "table_inner":
                if not m["table"]:
                    return
                key = sorted(m["table"])[op["key"] % len(m["table"])]
                mc, cont, ck, ik, bounds = m["table"][key], x.table[key], "list", ("int",), (0, 3)
            elif k == "group":
                mc, cont, ck, ik, bounds = m["group"], x.group, "set", ("int",), None
            else:
                raise HarnessError("unknown op %r" % k)
            iop = op["op"]
            ret_m, allowed, _ = c04.container_step(mc, ck, ik, bounds, iop)
            if ck == "list":
                ret, e = c05.sut_list_apply(cont, iop)
            elif ck == "dict":
                ret, e = c06.sut_dict_apply(cont, iop)
            else:
                ret, e = c07.sut_set_apply(cont, iop)
                if iop["k"] == "pop" and e is None:
                    mc.discard(ret)
        en = exc_name(e)
        env.oracle_evals += 1
        if allowed is not None:
            if en not in allowed:
                raise Violation("C14.live-rejects", "%s on R%d: expected %s, got %r"
                                % (k, m["uid"], " or ".join(sorted(allowed)), e), step)
        elif e is not None:
            raise Violation("C14.live-accepts", "%s on R%d raised %r" % (k, m["uid"], e), step)
        self.check_state(x, m, "after %s" % k, step)

    # trait definition objects ----------------------------------------------------------------
    def ctrait_roundtrip(self, op, step):
        from ..zoo14 import Plain
        from ..zoo import NodeBase
        name = TRAIT_DEFS[op["def"] % len(TRAIT_DEFS)]
        ct = make_trait_def(name)
        how = op["how"]
        if how.startswith("pickle"):
            rt, e = sut(lambda: pickle.loads(pickle.dumps(ct, int(how[-1]))))
        elif how == "copy":
            rt, e = sut(copy.copy, ct)
        else:
            rt, e = sut(copy.deepcopy, ct)
        if e is not None:
            raise Violation("C14.trait-roundtrip", "%s of a %s trait definition raised %r"
                            % (how, name, e), step)
        a, b = Plain(), Plain()
        a.add_trait("x", ct)
        b.add_trait("x", rt)
        node = NodeBase()
        da, db = default_outcome(a), default_outcome(b)
        if da != db:
            raise Violation("C14.trait-roundtrip",
                            "%s trait after %s: default reads as %s, the original's as %s"
                            % (name, how, db, da), step)
        for v in RT_VALUES + [node]:
            ra = outcome(a, v)
            rb = outcome(b, v)
            self.env.oracle_evals += 1
            if ra != rb:
                raise Violation("C14.trait-roundtrip",
                                "%s trait after %s: assigning %r gives %s, the original gives %s"
                                % (name, how, v, rb, ra), step)
        self.env.cover("ctrait", name, how)

    def coverage_report(self, cells):
        return {"measure": "(copy mode) and (trait definition kind, round-trip kind) cells",
                "cells_hit": len(cells),
                "copy_modes": sorted(c[1] for c in cells if c[0] == "copy_one"),
                "trait_defs": len({c[1] for c in cells if c[0] == "ctrait"})}


def default_outcome(obj):
    try:
        got = obj.x
        again = obj.x
    except Exception as e:      # noqa: BLE001
        return ("unreadable", exc_name(e))
    return ("default", type(got).__name__, repr(got), got is again)


def outcome(obj, v):
    try:
        obj.x = v
    except Exception as e:      # noqa: BLE001
        return ("raises", exc_name(e))
    try:
        got = obj.x
    except Exception as e:      # noqa: BLE001
        return ("stored-unreadable", exc_name(e))
    return ("stores", type(got).__name__, repr(got) if not hasattr(got, "trait_names") else "obj")


PROP = Prop()
