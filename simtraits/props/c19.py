"""C19 - a failing user callback never leaves an object half-updated.

Level: fault enumeration over sampled histories.  Twin worlds are built from
the same trace: twin A runs fault free and records how often each callback
site fires in each op; then EVERY (op i, site, ordinal k, exception class) is
injected in turn on a fresh twin B (prefix replayed, fault at (i, k), suffix
continued).  Deciding callbacks (validators, item validators, default methods
and factories, property getters and setters, adapter factories) must leave no
effect; notifying callbacks (change handlers) must leave the op complete; in
both cases the suffix must behave as on a twin that never saw the failure.
"""
import gc
import warnings

from ..core import (Violation, HarnessError, StepCap, Env, stream, sut, exc_name, exc_class,
                    InjectedFault, FAULT_EXCS)
from ..core import deep

ID = "C19"
UNSET = "<unset>"

DECIDING = ("validator", "default", "getter", "setter", "factory")


def is_deciding(site):
    return site.split(":")[0] in DECIDING


# sites at which an op's outcome is decided (by op kind): a callback that fires
# in another op (e.g. a getter run to compute the 'new' value of a notification)
# decides nothing the statement speaks about and is not injected there
ELIGIBLE = {
    "set_v": ("validator:v",), "set_u": ("validator:uA", "validator:uB"),
    "read_dflt": ("default:dflt",), "set_dflt": ("default:dflt",),
    "read_fac": ("default:fac",),
    "read_p": ("getter:p",), "set_p": ("setter:p",), "read_cp": ("getter:cp",),
    "items": ("validator:items",), "d": ("validator:d",), "s": ("validator:s",),
    "tl": ("validator:tl",), "set_sup": ("factory:1", "factory:2", "factory:3"),
    "set_dv": ("validator:v",), "set_child": (), "unreg": (), "probe": (),
    "del_items": (), "set_items": ("validator:items",),
    "set_sv": ("validator:sv",),
    "setq_v": ("validator:v",), "set_pv": ("validator:v",), "del_pv": (),
    "read_dp": ("getter:dp",),
    # 'del obj.dflt' with listeners computes the default to report it as the new value
    "del_dflt": ("default:dflt",),
    # establishing the mutual link hands the value over: the partner validates it
    "sync_sv": ("validator:sv",), "unsync_sv": (),
    # an extended legacy name walks through 'lz', whose default method runs then
    "reg": ("default:lz",), "read_lz": ("default:lz",),
}

# getters that traits itself runs while it notifies the listeners of a property
# (to provide the new value): a failure there is contained like a handler failure
NOTIF_GETTERS = {"getter:dp", "getter:cp"}

# 'sv' of objs[0] and objs[1] are kept equal by sync_trait(mutual=True): the 2nd
# validation during a set_sv is the partner's, made by the library's own change
# handler while it propagates the value (a deciding callback of the NESTED
# assignment only)
NESTED = {("set_sv", "validator:sv")}


def mask_sv(snap, idx):
    """Snapshot without the 'sv' values of the objects in idx."""
    objs = []
    for j, (vals, reads, pop) in enumerate(snap[0]):
        if j in idx:
            vals = dict(vals, sv=None)
        objs.append((vals, reads, pop))
    return (objs, snap[1], snap[2])


class World:
    """One twin: objects, handlers, op interpreter, snapshot."""

    def __init__(self, cfg, env):
        self.cfg = cfg
        self.env = env
        self.events = []          # handler calls of the current op: (hid, what)
        self.routed = []
        self.build()

    # -- classes ------------------------------------------------------------------
    def build(self):
        import traits.api as T
        from traits.adaptation.api import AdaptationManager
        from traits.adaptation import adaptation_manager as am_mod
        from traits.trait_list_object import TraitList
        env = self.env
        events = self.events

        def mk_checked(site):
            class Checked(T.TraitType):
                default_value = 0
                info_text = "a checked int"

                def validate(self, object, name, value):
                    env.point(site, value if isinstance(value, (int, str)) else None)
                    if type(value) is int:
                        return value
                    self.error(object, name, value)
            return Checked

        CV, CA, CB = mk_checked("validator:v"), mk_checked("validator:uA"), mk_checked("validator:uB")
        CI, CD, CS = (mk_checked("validator:items"), mk_checked("validator:d"),
                      mk_checked("validator:s"))
        CSV = mk_checked("validator:sv")

        class IFoo(T.Interface):
            pass

        class IMid(T.Interface):
            pass

        class SrcBase(T.HasTraits):
            pass

        class Src(SrcBase):
            tag = T.Int()

        @T.provides(IMid)
        class MidAdapter(T.HasTraits):
            adaptee = T.Any()

        @T.provides(IFoo)
        class FooAdapter(T.HasTraits):
            adaptee = T.Any()

        def factory1(adaptee):
            env.point("factory:1")
            return MidAdapter(adaptee=adaptee)

        def factory2(adaptee):
            env.point("factory:2")
            return FooAdapter(adaptee=adaptee)
        def factory3(adaptee):
            # a second, less specific offer (made for the base class of Src)
            env.point("factory:3")
            return FooAdapter(adaptee=adaptee)
        self._saved_am = am_mod.adaptation_manager
        am = AdaptationManager()
        am_mod.set_global_adaptation_manager(am)
        am.register_factory(factory1, Src, IMid)
        am.register_factory(factory2, IMid, IFoo)
        am.register_factory(factory3, SrcBase, IFoo)
        self.Src = Src

        def fac():
            env.point("default:fac")
            return {"made": 1}

        def _dflt_default(obj):
            env.point("default:dflt")
            return [1, 2]

        def _lz_default(obj):
            env.point("default:lz")
            return obj.__dict__.get("partner")

        def _get_p(obj):
            env.point("getter:p")
            return obj.__dict__.get("_pv", 0) * 2

        def _set_p(obj, value):
            env.point("setter:p")
            obj.__dict__["_pv"] = value

        def _get_cp(obj):
            env.point("getter:cp")
            return obj.v + 1

        def _get_dp(obj):
            env.point("getter:dp")
            return obj.v * 3

        def _v_changed(obj, old, new):
            events.append(("static_v", obj.uid))
            env.point("h:static_v")

        def _dflt_changed(obj, old, new):
            events.append(("static_dflt", obj.uid))
            env.point("h:static_dflt")

        def _items_items_changed(obj, event):
            events.append(("static_items", obj.uid))
            env.point("h:static_items")
        with warnings.catch_warnings():
            warnings.simplefilter("ignore")
            ns = {
                "uid": T.Int(), "v": CV(), "sv": CSV(), "u": T.Union(CA(), CB()), "dflt": T.Any(),
                "fac": T.Any(factory=fac), "p": T.Property(),
                "cp": T.Property(observe="v"), "dp": T.Property(depends_on="v"),
                "items": T.List(CI()),
                "d": T.Dict(T.Str, CD()), "s": T.Set(CS()), "sup": T.Supports(IFoo),
                "partner": T.Instance(T.HasTraits), "dv": T.DelegatesTo("partner", prefix="v"),
                "pv": T.PrototypedFrom("partner", prefix="v"),
                "child": T.Instance(T.HasTraits),
                "lz": T.Instance(T.HasTraits), "_lz_default": _lz_default,
                "_dflt_default": _dflt_default, "_get_p": _get_p, "_set_p": _set_p,
                "_get_cp": T.cached_property(_get_cp), "_get_dp": T.cached_property(_get_dp),
                "_v_changed": _v_changed, "_dflt_changed": _dflt_changed,
                "_items_items_changed": _items_items_changed,
            }
            W = type(T.HasTraits)("W", (T.HasTraits,), ns)
        n = self.cfg["nobj"]
        self.objs = [W(uid=i) for i in range(n)]
        for i, o in enumerate(self.objs):
            o.partner = self.objs[(i + 1) % n]
        self.objs[0].sync_trait("sv", self.objs[1], mutual=True)
        from ..values import Coerce
        tlv = mk_point_validator(env, "validator:tl")
        self.tl = TraitList([1, 2], item_validator=tlv)
        # (raw TraitList notifiers are documented as 'expected not to raise' and are
        # not change handlers in the sense of the statement: an observer is used)
        from traits.observation.api import observe as _observe
        from traits.observation import expression as _ex

        def tl_handler(event):
            events.append(("tl_obs", 0))
            env.point("h:tl_obs")
        self._tl_handler = tl_handler
        _observe(self.tl, _ex.list_items(), tl_handler)
        self.handlers = {}
        self.active = set()
        for h in self.cfg["handlers"]:
            self.handlers[h["id"]] = self.mk_handler(h)
            if h["initial"]:
                self.register(h, False)

    def close(self):
        from traits.adaptation import adaptation_manager as am_mod
        am_mod.set_global_adaptation_manager(self._saved_am)

    def mk_handler(self, h):
        env, events = self.env, self.events
        hid = h["id"]
        if h["mech"] == "otc":
            def f(obj, name, old, new):
                events.append((hid, getattr(obj, "uid", None), name))
                env.point("h:" + hid)
        else:
            def f(event):
                events.append((hid, getattr(event.object, "uid", None), type(event).__name__))
                env.point("h:" + hid)
        return f

    def register(self, h, remove):
        o = self.objs[h["o"] % len(self.objs)]
        f = self.handlers[h["id"]]
        if h["mech"] == "otc":
            o.on_trait_change(f, h["name"], remove=remove)
        else:
            o.observe(f, h["name"], remove=remove)
        if remove:
            self.active.discard(h["id"])
        else:
            self.active.add(h["id"])

    # -- ops -----------------------------------------------------------------------
    def apply(self, op):
        """One documented-API call.  Returns ('ok', plain result) or ('exc',
        exception)."""
        k = op["k"]
        o = self.objs[op.get("o", 0) % len(self.objs)]
        val = op.get("v")
        if k == "set_v":
            f = lambda: setattr(o, "v", val)                      # noqa: E731
        elif k == "set_u":
            f = lambda: setattr(o, "u", val)                      # noqa: E731
        elif k == "set_sv":
            f = lambda: setattr(o, "sv", val)                     # noqa: E731
        elif k == "setq_v":
            # a quiet assignment (no notifications for it, all of them afterwards)
            if op.get("how") == "trait_set":
                f = lambda: o.trait_set(trait_change_notify=False, v=val) and None   # noqa: E731
            else:
                f = lambda: o.trait_setq(v=val) and None          # noqa: E731
        elif k == "set_pv":
            f = lambda: setattr(o, "pv", val)                     # noqa: E731
        elif k == "del_pv":
            f = lambda: delattr(o, "pv") if "pv" in o.__dict__ else None   # noqa: E731
        elif k == "del_dflt":
            f = lambda: delattr(o, "dflt") if "dflt" in o.__dict__ else None   # noqa: E731
        elif k == "read_lz":
            f = lambda: getattr(o.lz, "uid", None)                # noqa: E731
        elif k == "sync_sv":
            f = lambda: self.objs[0].sync_trait("sv", self.objs[1], mutual=True)   # noqa: E731
        elif k == "unsync_sv":
            f = lambda: self.objs[0].sync_trait("sv", self.objs[1], mutual=True, remove=True)   # noqa: E731
        elif k == "read_dflt":
            f = lambda: plain(o.dflt)                             # noqa: E731
        elif k == "set_dflt":
            f = lambda: setattr(o, "dflt", val)                   # noqa: E731
        elif k == "read_fac":
            f = lambda: plain(o.fac)                              # noqa: E731
        elif k == "read_p":
            f = lambda: o.p                                       # noqa: E731
        elif k == "set_p":
            f = lambda: setattr(o, "p", val)                      # noqa: E731
        elif k == "read_cp":
            f = lambda: o.cp                                      # noqa: E731
        elif k == "read_dp":
            f = lambda: o.dp                                      # noqa: E731
        elif k == "items":
            f = lambda: list_call(o.items, op)                    # noqa: E731
        elif k == "del_items":
            f = lambda: o.items.__delitem__(slice(op["a"], op["b"]))   # noqa: E731
        elif k == "set_items":
            f = lambda: setattr(o, "items", list(op["vs"]))       # noqa: E731
        elif k == "d":
            if op["how"] == "setitem":
                f = lambda: o.d.__setitem__(op["key"], val)       # noqa: E731
            else:
                f = lambda: o.d.update(dict(op["pairs"]))         # noqa: E731
        elif k == "s":
            if op["how"] == "add":
                f = lambda: o.s.add(val)                          # noqa: E731
            elif op["how"] == "update":
                vs = list(op["vs"])
                if op.get("split") and len(vs) >= 2:
                    # several iterables in one call: still one all-or-nothing operation
                    f = lambda: o.s.update(vs[:1], vs[1:])        # noqa: E731
                else:
                    f = lambda: o.s.update(vs)                    # noqa: E731
            else:
                f = lambda: o.s.symmetric_difference_update(list(op["vs"]))   # noqa: E731
        elif k == "tl":
            f = lambda: list_call(self.tl, op)                    # noqa: E731
        elif k == "set_sup":
            src = self.Src(tag=op["v"]) if op["v"] is not None else None
            f = lambda: setattr(o, "sup", src)                    # noqa: E731
        elif k == "set_dv":
            f = lambda: setattr(o, "dv", val)                     # noqa: E731
        elif k == "set_child":
            tgt = None if op["v"] is None else self.objs[op["v"] % len(self.objs)]
            f = lambda: setattr(o, "child", tgt)                  # noqa: E731
        elif k in ("reg", "unreg"):
            h = self.cfg["handlers"][op["h"] % len(self.cfg["handlers"])] if self.cfg["handlers"] else None
            if h is None or ((k == "reg") == (h["id"] in self.active)):
                return ("ok", None)
            f = lambda: self.register(h, k == "unreg")            # noqa: E731
        elif k == "probe":
            f = lambda: setattr(o, "v", val)                      # noqa: E731
        else:
            raise HarnessError("unknown op %r" % k)
        with warnings.catch_warnings():
            warnings.simplefilter("ignore")
            r, e = sut(f)
        if e is not None:
            return ("exc", e)
        return ("ok", r if isinstance(r, (int, str, list, dict, tuple, type(None))) else None)

    # -- snapshot --------------------------------------------------------------------
    def snapshot(self):
        """Everything 'behaviour' can depend on: stored values, container
        contents, caches (by read-equivalence), registrations."""
        from traits.observation._trait_event_notifier import TraitEventNotifier
        from traits.observation._observer_change_notifier import ObserverChangeNotifier
        out = []
        for o in self.objs:
            d = o.__dict__
            # read-equivalence: an attribute that was never materialised is the same
            # as one holding its default
            vals = {"v": 0, "sv": 0, "pv": None, "u": 0, "dflt": plain([1, 2]), "fac": plain({"made": 1}), "_pv": None,
                    "items": plain([]), "d": plain({}), "s": plain(set()), "dv": None}
            for name in list(vals):
                if name in d:
                    vals[name] = plain(d[name])
            vals["sup"] = type(d.get("sup")).__name__
            vals["child"] = getattr(d.get("child"), "uid", None)
            # (read-equivalence: a never-read 'lz' == one holding its default, the partner)
            vals["lz"] = getattr(d.get("lz", d.get("partner")), "uid", None)
            vals["sync"] = sorted((a, sorted(al for (_, al) in b))
                                  for a, b in d.get("__sync_trait__", {}).items() if a and b)
            vals["legacy"] = sorted(n for n, ls in d.get("__traits_listener__", {}).items() if ls)
            with warnings.catch_warnings():
                warnings.simplefilter("ignore")
                reads = {}
                for name in ("v", "dv", "pv"):
                    r, e = sut(getattr, o, name)
                    reads[name] = plain(r) if e is None else ("exc", exc_name(e))
            # the cached property is compared by read-equivalence WITHOUT reading it
            # (a read would warm the cache and make its getter unreachable as a
            # fault site): an empty cache == a cache holding the current value
            cache = d.get("_traits_cache_cp", UNSET)
            reads["cp-cache"] = "valid" if (cache is UNSET or cache == d.get("v", 0) + 1) \
                else ("stale", cache)
            cache = d.get("_traits_cache_dp", UNSET)
            reads["dp-cache"] = "valid" if (cache is UNSET or cache == d.get("v", 0) * 3) \
                else ("stale", cache)
            pop = {}
            for name in sorted(o._instance_traits()):
                t = o._trait(name, 0)
                ns = t._notifiers(False) if t is not None else None
                lst = sorted(type(x).__name__ for x in (ns or ()))
                if lst:             # an instance trait without notifiers == none at all
                    pop[name] = lst
            for name in ("items", "d", "s"):
                c = d.get(name)
                # hooks on a container exist from the moment it is materialised; a
                # not yet materialised default is equivalent to a hooked empty one
                pop[name + "[]"] = "unmaterialised" if c is None else sorted(
                    type(x).__name__ for x in c.notifiers
                    if isinstance(x, (TraitEventNotifier, ObserverChangeNotifier)))
            out.append((vals, reads, pop))
        return (out, list(self.tl), sorted(self.active))


def mk_point_validator(env, site):
    from traits.trait_errors import TraitError

    def v(item):
        env.point(site, item if isinstance(item, (int, str)) else None)
        if type(item) is int:
            return item
        raise TraitError("bad item %r" % (item,))
    return v


def list_call(lst, op):
    how = op["how"]
    vs = list(op.get("vs", ()))
    if how == "append":
        return lst.append(vs[0])
    if how == "extend":
        return lst.extend(vs)
    if how == "iadd":
        lst += vs
        return None
    if how == "insert":
        return lst.insert(op["i"], vs[0])
    if how == "setslice":
        lst[op["a"]:op["b"]] = vs
        return None
    if how == "setitem":
        if len(lst) == 0:
            return lst.append(vs[0])
        lst[op["i"] % len(lst)] = vs[0]
        return None
    raise HarnessError(how)


def plain(v):
    if isinstance(v, tuple):
        return ("tuple",) + tuple(plain(x) for x in v)
    if isinstance(v, list):
        return ["list"] + [plain(x) for x in v]
    if isinstance(v, dict):
        return {"dict": sorted((repr(a), plain(b)) for a, b in v.items())}
    if isinstance(v, (set, frozenset)):
        return {"set": sorted(repr(x) for x in v)}
    if isinstance(v, (int, str, float, type(None))):
        return v
    return type(v).__name__


def same_snap(a, b):
    """Snapshot equality up to default materialisation of containers."""
    if a == b:
        return True
    if a is None or b is None:
        return False
    if a[1] != b[1] or a[2] != b[2] or len(a[0]) != len(b[0]):
        return False
    for (va, ra, pa), (vb, rb, pb) in zip(a[0], b[0]):
        if va != vb or ra != rb:
            return False
        for key in set(pa) | set(pb):
            x, y = pa.get(key), pb.get(key)
            if x != y and "unmaterialised" not in (x, y):
                return False
    return True


def outcome_key(res):
    if res[0] == "ok":
        return ("ok", plain(res[1]))
    return ("exc", exc_name(res[1]))


class Prop:
    ID = ID
    LEVEL = "fault_enumeration"
    CHUNK = 4
    GC_EVERY = 1
    RUN_TIMEOUT = 60.0
    DIGEST_EVERY = 1
    STEP_CAP = 2000000
    RULE = ("histories of 3-14 documented-API calls are sampled by seed (assignments through "
            "custom validators, a two-alternative Union, default methods and factories, property "
            "getters/setters, cached observed property, List/Dict/Set item validators at the k-th "
            "item, stand-alone TraitList, Supports with a two-factory adapter chain, delegation, "
            "quiet assignments (trait_setq / trait_set(trait_change_notify=False)), a "
            "PrototypedFrom attribute validated by its prototype's trait (assignment, deletion), "
            "observed child links, an attribute kept equal on two objects by sync_trait(mutual) "
            "whose partner-side validation fails inside the library's own propagation handler "
            "(nested deciding callback: partner untouched, outer op complete, pair realigned by "
            "the next successful assignment), handler (un)registration; static, on_trait_change "
            "and observe handlers). For each sampled history the fault space is ENUMERATED: every op i x "
            "every callback site that fired in it on the fault-free twin (restricted to sites "
            "that decide that op, plus all change handlers) x every ordinal k <= count x each of "
            "TraitError, ValueError, AttributeError, RuntimeError is injected on a fresh twin. "
            "evaluations = injections executed; distinct_nontrivial = distinct (op kind, site, "
            "ordinal, exception class, deciding|notifying) injection classes whose fault fired "
            "and whose three oracles (effect, exception, suffix agreement) were evaluated")
    ASSUMPTIONS = ["a getter that fails while traits recomputes a property for a notification "
                   "decides nothing the statement speaks about and is not injected",
                   "an injected TraitError in a non-last Union alternative means 'this alternative "
                   "rejects' (the next one decides) and is not injected; other classes are",
                   "caches are compared by read-equivalence; AttributeError from a default adds a "
                   "UserWarning by design"]

    # ------------------------------------------------------------------ generation
    def gen(self, seed):
        c = stream(seed, "config")
        r = stream(seed, "ops")
        nobj = deep(c, [2, 3], [4])
        handlers = []
        names_otc = ["v", "items", "items_items", "d_items", "s_items", "p", "cp", "dv", "u", "child",
                     "dflt", "sup", "sv", "pv", "dp", "dp", "lz.v", "sv, lz.v", "lz.v"]
        names_obs = ["v", "items.items", "d.items", "s.items", "child.v", "cp", "p", "items", "u",
                     "child", "child.items.items", "sv", "pv", "dp", "dp"]
        for j in range(c.randint(2, 6)):
            mech = c.choice(["otc", "obs"])
            handlers.append({"id": "h%d" % j, "mech": mech, "o": c.randrange(nobj),
                             "name": c.choice(names_otc if mech == "otc" else names_obs),
                             "initial": c.random() < 0.8})
        nops = deep(c, [3, 5, 8, 11, 14], [18, 22])
        ctr = [10]

        def fresh():
            ctr[0] += 1
            return ctr[0]

        def item(bad_rate=0.1):
            # (an invalid item is a float, not a string: strings inside sets would make
            # validation order depend on PYTHONHASHSEED)
            return 0.5 if r.random() < bad_rate else fresh()
        ops = []
        for _ in range(nops):
            o = r.randrange(nobj)
            if r.random() < 0.08 and len(ops) + 5 <= nops:
                # the life cycle of a property cache: fill, invalidate, fill, invalidate, read
                rd = r.choice(["read_dp", "read_dp", "read_cp"])
                for kk in (rd, "set_v", rd, "set_v", rd):
                    ops.append({"k": kk, "o": o, "v": fresh()} if kk == "set_v"
                               else {"k": kk, "o": o})
                continue
            k = r.choice(["set_v", "set_v", "set_sv", "set_sv", "setq_v", "set_pv", "set_pv",
                          "del_pv", "read_dp", "set_u", "read_dflt", "set_dflt", "del_dflt", "read_fac",
                          "read_p", "read_lz", "sync_sv", "unsync_sv", "unsync_sv",
                          "set_p", "read_cp", "items", "items", "items", "del_items", "set_items",
                          "d", "d", "s", "s", "tl", "set_sup", "set_dv", "set_child", "reg", "unreg",
                          "probe"])
            op = {"k": k, "o": o}
            if k == "setq_v":
                op["how"] = r.choice(["trait_setq", "trait_set"])
            if k in ("set_v", "set_sv", "setq_v", "set_pv", "set_u", "set_dflt", "set_p", "set_dv",
                     "probe"):
                op["v"] = item(0.12 if k not in ("set_dflt", "set_p", "probe") else 0.0)
            elif k in ("items", "tl"):
                op["how"] = r.choice(["append", "extend", "extend", "iadd", "insert", "setslice",
                                      "setitem"])
                n = 1 if op["how"] in ("append", "insert", "setitem") else r.randint(1, 3)
                op["vs"] = [item() for _ in range(n)]
                op["i"] = r.randrange(4)
                op["a"], op["b"] = sorted((r.randrange(4), r.randrange(4)))
            elif k == "del_items":
                op["a"], op["b"] = sorted((r.randrange(4), r.randrange(4)))
            elif k == "set_items":
                op["vs"] = [item() for _ in range(r.randint(0, 3))]
            elif k == "d":
                op["how"] = r.choice(["setitem", "update"])
                op["key"] = r.choice(["a", "b"])
                op["v"] = item()
                op["pairs"] = [[r.choice(["a", "b", "c"]), item()] for _ in range(r.randint(1, 3))]
            elif k == "s":
                op["how"] = r.choice(["add", "update", "update", "symdiff"])
                op["v"] = item()
                op["vs"] = [item() for _ in range(r.randint(1, 3))]
                op["split"] = r.random() < 0.5
            elif k == "set_sup":
                op["v"] = fresh() if r.random() < 0.85 else None
            elif k == "set_child":
                op["v"] = r.choice([None] + list(range(nobj)))
            elif k in ("reg", "unreg"):
                op["h"] = r.randrange(8)
            ops.append(op)
        return {"prop": ID, "seed": seed,
                "config": {"nobj": nobj, "handlers": handlers,
                           # some histories run under the library's default exception
                           # handlers and with exceptions whose first argument is no string
                           "default_handlers": c.random() < 0.3,
                           "nonstr_args": c.random() < 0.4},
                "ops": ops}

    # ------------------------------------------------------------------ running a twin
    def run_twin(self, trace, upto, inject=None, skip=None, record=False, budget=None):
        """Run ops[0:upto] (all if None) on a fresh world.  ``inject`` =
        (i, site, k, exc name); ``skip`` = op index left out.  Returns a list of
        per-op records {outcome, snapshot, events, counts, fired, routed}."""
        from traits.api import push_exception_handler, pop_exception_handler
        from traits.observation import api as oapi
        env = Env(record=False, step_cap=self.STEP_CAP)
        w = World(trace["config"], env)
        default_handlers = bool(trace["config"].get("default_handlers"))
        if default_handlers:
            # the library's own (logging) exception handlers, with the log silenced
            import logging
            logging.disable(logging.CRITICAL)
        else:
            push_exception_handler(lambda o, n, old, new: w.routed.append(("legacy", n)),
                                   reraise_exceptions=False)
            oapi.push_exception_handler(lambda ev: w.routed.append(("observe", None)),
                                        reraise_exceptions=False)
        recs = []
        try:
            ops = trace["ops"]
            n = len(ops) if upto is None else upto
            for i in range(n):
                if i == skip:
                    recs.append(None)
                    continue
                op = ops[i]
                if inject is not None and inject[0] == i:
                    op = dict(op, env=[{"at": inject[1], "nth": inject[2], "do": "raise",
                                        "exc": inject[3],
                                        "args": "nonstr" if trace["config"].get("nonstr_args")
                                        else None}])
                else:
                    op = {a: b for a, b in op.items() if a != "env"}
                env.begin_op(i, op)
                del w.events[:]
                del w.routed[:]
                fired0 = env.fired["raise"]
                res = w.apply(op)
                counts = dict(env.counts)
                env.end_op()
                recs.append({"outcome": res, "key": outcome_key(res), "snap": w.snapshot(),
                             "events": sorted(map(repr, w.events)), "counts": counts,
                             "events_raw": list(w.events),
                             "fired": env.fired["raise"] > fired0, "routed": list(w.routed)})
        finally:
            if default_handlers:
                logging.disable(logging.NOTSET)
            else:
                oapi.pop_exception_handler()
                pop_exception_handler()
            w.close()
        return recs, env

    # ------------------------------------------------------------------ execution
    def execute(self, trace, env):
        ops = trace["ops"]
        gc.disable()
        A, envA = self.run_twin(trace, None)
        env.seq += envA.seq
        env.log("twinA", envA.digest())
        # deterministic twins: a second fault-free run must be identical
        A2, env2 = self.run_twin(trace, None)
        env.seq += env2.seq
        for i, (x, y) in enumerate(zip(A, A2)):
            if x["key"] != y["key"] or not same_snap(x["snap"], y["snap"]) or x["events"] != y["events"]:
                raise HarnessError("fault-free twins differ at op %d: the world is not "
                                   "deterministic" % i)
        only = trace["config"].get("only_injection")
        skip_runs = {}
        injections = 0
        for i, op in enumerate(ops):
            k = op["k"]
            elig = ELIGIBLE.get(k, ())
            for site, count in sorted(A[i]["counts"].items()):
                if site == "h:any":
                    continue
                deciding = is_deciding(site)
                if site in NOTIF_GETTERS and site not in elig:
                    for nth in range(1, count + 1):
                        for exc in FAULT_EXCS:
                            inj = (i, site, nth, exc)
                            if only is not None and list(inj) != list(only):
                                continue
                            injections += 1
                            self.check_notif_getter(trace, A, inj, env)
                    continue
                if deciding and site not in elig:
                    continue
                if not deciding and not site.startswith("h:"):
                    continue
                for nth in range(1, count + 1):
                    if k == "sync_sv" and nth >= 2 and not trace["config"].get("allow_k6"):
                        # known finding K6: the second hand-over of a mutual sync_trait
                        # (the value coming back) fails after the first one took effect
                        env.probe("k6-guard-skip")
                        continue
                    for exc in FAULT_EXCS:
                        if deciding and site == "validator:uA" and exc == "TraitError":
                            continue
                        inj = (i, site, nth, exc)
                        if only is not None and list(inj) != list(only):
                            continue
                        injections += 1
                        if (k, site) in NESTED and nth >= 2:
                            self.check_nested(trace, A, inj, skip_runs, env)
                        else:
                            self.check_injection(trace, A, inj, deciding, skip_runs, env)
            gc.collect()
        env.log("history", (len(ops), injections))
        env.nontrivial = injections > 0
        env.probe("injections", injections)

    def check_injection(self, trace, A, inj, deciding, skip_runs, env):
        i, site, nth, exc = inj
        ops = trace["ops"]
        op = ops[i]
        B, envB = self.run_twin(trace, None, inject=inj)
        env.seq += envB.seq
        env.log("twinB", (list(inj), envB.digest()))
        env.oracle_evals += 1
        rb = B[i]
        what = "op %d (%s) with %s raised at call %d of %s" % (i, describe(op), exc, nth, site)
        if not rb["fired"]:
            raise Violation("C19.fault-not-reached",
                            "%s: the callback fired %d times on the fault-free twin but was not "
                            "reached on the faulted one (prefix diverged?)"
                            % (what, A[i]["counts"].get(site, 0)), i, data=list(inj))
        if deciding:
            res = rb["outcome"]
            if res[0] != "exc":
                raise Violation("C19.deciding-fault-swallowed",
                                "%s: the operation reported success (%r)" % (what, res[1]), i,
                                data=list(inj))
            e = res[1]
            from traits.trait_errors import TraitError
            if not (isinstance(e, InjectedFault) or isinstance(e, TraitError)):
                raise Violation("C19.deciding-fault-exception",
                                "%s: the caller saw %r, neither the injected exception nor a "
                                "TraitError" % (what, e), i, data=list(inj))
            # no effect: state equals the state before the op
            ref = self.skip_run(trace, i, skip_runs, env)
            before = ref["pre"]
            if not same_snap(rb["snap"], before):
                raise Violation("C19.half-updated",
                                "%s: the operation failed but changed the state: %s"
                                % (what, diff_snap(before, rb["snap"])), i, data=list(inj))
            if rb["events"]:
                raise Violation("C19.notified-on-failure",
                                "%s: the operation failed but handlers were called: %s"
                                % (what, rb["events"][:3]), i, data=list(inj))
            # suffix: exactly as on a twin that never executed op i
            for j in range(i + 1, len(ops)):
                a, b = ref["recs"][j], B[j]
                if a["key"] != b["key"] or not same_snap(a["snap"], b["snap"]) or a["events"] != b["events"]:
                    raise Violation("C19.suffix-differs",
                                    "%s: later op %d (%s) behaves differently from a twin that "
                                    "never saw the failure: %s"
                                    % (what, j, describe(ops[j]),
                                       diff_rec(a, b)), i, data=list(inj))
        else:
            ra = A[i]
            if rb["key"] != ra["key"]:
                raise Violation("C19.handler-fault-escaped",
                                "%s: the operation's outcome changed from %r to %r"
                                % (what, ra["key"], rb["key"]), i, data=list(inj))
            if not same_snap(rb["snap"], ra["snap"]):
                raise Violation("C19.incomplete-after-handler-fault",
                                "%s: the operation is not complete: %s"
                                % (what, diff_snap(ra["snap"], rb["snap"])), i, data=list(inj))
            if rb["events"] != ra["events"]:
                raise Violation("C19.handlers-skipped",
                                "%s: other handlers did not all run: fault-free %s, faulted %s"
                                % (what, ra["events"], rb["events"]), i, data=list(inj))
            # (how often the failure is reported to the exception handlers is documented
            # behaviour but no part of the statement: recorded, not judged)
            env.probe("handler-fault-reported-%d-times" % min(len(rb["routed"]), 2))
            for j in range(i + 1, len(ops)):
                a, b = A[j], B[j]
                if a["key"] != b["key"] or not same_snap(a["snap"], b["snap"]) or a["events"] != b["events"]:
                    raise Violation("C19.suffix-differs",
                                    "%s: later op %d (%s) behaves differently from the fault-free "
                                    "twin: %s" % (what, j, describe(ops[j]), diff_rec(a, b)), i,
                                    data=list(inj))
        env.token(op["k"], site, min(nth, 3), exc, deciding)
        env.cover(op["k"], site, min(nth, 3), exc)
        env.fired["raise"] += 1
        env.planned["raise"] += 1

    def check_notif_getter(self, trace, A, inj, env):
        """The getter of a (depends_on) property raises while traits recomputes the
        property to notify its listeners: contained like a handler failure - the
        operation is complete, only the listeners of that property go without their
        call - and the suffix agrees with the fault-free twin (caches compared by
        read-equivalence)."""
        i, site, nth, exc = inj
        ops = trace["ops"]
        op = ops[i]
        cfg = trace["config"]
        pname = site.split(":")[1]
        B, envB = self.run_twin(trace, None, inject=inj)
        env.seq += envB.seq
        env.log("twinB", (list(inj), envB.digest()))
        env.oracle_evals += 1
        ra, rb = A[i], B[i]
        what = "op %d (%s) with %s raised at call %d of %s (run by traits to notify the " \
               "listeners of %s)" % (i, describe(op), exc, nth, site, pname)
        if not rb["fired"]:
            raise Violation("C19.fault-not-reached", "%s: not reached on the faulted twin" % what,
                            i, data=list(inj))
        if rb["key"] != ra["key"]:
            raise Violation("C19.handler-fault-escaped",
                            "%s: the operation's outcome changed from %r to %r"
                            % (what, ra["key"], rb["key"]), i, data=list(inj))
        if not same_snap(rb["snap"], ra["snap"]):
            raise Violation("C19.incomplete-after-handler-fault",
                            "%s: the operation is not complete: %s"
                            % (what, diff_snap(ra["snap"], rb["snap"])), i, data=list(inj))
        phids = {h["id"] for h in cfg["handlers"] if h["name"] == pname}
        want = sorted(repr(e) for e in ra["events_raw"] if e[0] not in phids)
        got = sorted(repr(e) for e in rb["events_raw"] if e[0] not in phids)
        if got != want:
            raise Violation("C19.handlers-skipped",
                            "%s: other handlers did not all run: %s, expected %s"
                            % (what, got, want), i, data=list(inj))
        for j in range(i + 1, len(ops)):
            if ops[j]["k"] == "setq_v":
                # a quiet assignment of the dependency leaves whatever the cache holds
                # in place (by design no listener hears of it): from here on a cache
                # that was recomputed and one that was merely dropped read differently
                break
            a, b = A[j], B[j]
            if a["key"] != b["key"] or not same_snap(a["snap"], b["snap"]) or a["events"] != b["events"]:
                raise Violation("C19.suffix-differs",
                                "%s: later op %d (%s) behaves differently from the fault-free "
                                "twin: %s" % (what, j, describe(ops[j]), diff_rec(a, b)), i,
                                data=list(inj))
        env.token(op["k"], site, "notif", exc, False)
        env.cover(op["k"], site, "notif", exc)
        env.fired["raise"] += 1
        env.planned["raise"] += 1

    def check_nested(self, trace, A, inj, skip_runs, env):
        """The partner's validator raises while the library's synchronisation
        handler copies the new value to it: the nested assignment has no effect
        (the partner keeps its value, its handlers stay silent), the outer
        operation is complete, and from the next successful assignment to either
        side on, everything is as on the fault-free twin (the pair is realigned)."""
        i, site, nth, exc = inj
        ops = trace["ops"]
        op = ops[i]
        cfg = trace["config"]
        B, envB = self.run_twin(trace, None, inject=inj)
        env.seq += envB.seq
        env.log("twinB", (list(inj), envB.digest()))
        env.oracle_evals += 1
        ra, rb = A[i], B[i]
        what = "op %d (%s) with %s raised at call %d of %s (the synchronised partner's " \
               "validation)" % (i, describe(op), exc, nth, site)
        if not rb["fired"]:
            raise Violation("C19.fault-not-reached", "%s: not reached on the faulted twin" % what,
                            i, data=list(inj))
        src = op["o"] % cfg["nobj"]
        partner = 1 - src
        if rb["key"] != ra["key"]:
            raise Violation("C19.handler-fault-escaped",
                            "%s: the outer operation's outcome changed from %r to %r"
                            % (what, ra["key"], rb["key"]), i, data=list(inj))
        pre = self.skip_run(trace, i, skip_runs, env)["pre"]
        if not same_snap(mask_sv(rb["snap"], {partner}), mask_sv(ra["snap"], {partner})):
            raise Violation("C19.incomplete-after-handler-fault",
                            "%s: the outer operation is not complete: %s"
                            % (what, diff_snap(ra["snap"], rb["snap"])), i, data=list(inj))
        if rb["snap"][0][partner][0]["sv"] != pre[0][partner][0]["sv"]:
            raise Violation("C19.half-updated",
                            "%s: the partner's value changed from %r to %r although its "
                            "validation failed" % (what, pre[0][partner][0]["sv"],
                                                   rb["snap"][0][partner][0]["sv"]), i,
                            data=list(inj))
        partner_hids = {h["id"] for h in cfg["handlers"]
                        if "sv" in [x.strip() for x in h["name"].split(",")]
                        and h["o"] % cfg["nobj"] == partner}
        want = sorted(repr(e) for e in ra["events_raw"] if e[0] not in partner_hids)
        if rb["events"] != want:
            raise Violation("C19.handlers-skipped",
                            "%s: handler calls %s, expected %s (the fault-free calls without the "
                            "partner's own sv handlers)" % (what, rb["events"], want), i,
                            data=list(inj))
        realigned = False
        linked = True          # (the fault hit a propagation: the link existed)
        for j in range(i + 1, len(ops)):
            a, b = A[j], B[j]
            both_ok = a["key"][0] == "ok" and b["key"][0] == "ok"
            if (not realigned and linked and ops[j]["k"] == "set_sv"
                    and ops[j]["o"] % cfg["nobj"] < 2 and both_ok):
                realigned = True
            if ops[j]["k"] == "unsync_sv" and both_ok:
                linked = False
            if ops[j]["k"] == "sync_sv" and both_ok:
                # (the hand-over makes the pair equal again - to whatever objs[0] holds,
                # which need not be the fault-free value: not a realignment with twin A)
                linked = True
            if a["key"] != b["key"]:
                raise Violation("C19.suffix-differs",
                                "%s: later op %d (%s) has outcome %r, on the fault-free twin %r"
                                % (what, j, describe(ops[j]), b["key"], a["key"]), i,
                                data=list(inj))
            sa, sb = a["snap"], b["snap"]
            if not realigned:
                sa, sb = mask_sv(sa, {0, 1}), mask_sv(sb, {0, 1})
            if not same_snap(sa, sb) or (realigned and a["events"] != b["events"]):
                raise Violation("C19.suffix-differs",
                                "%s: later op %d (%s) behaves differently from the fault-free "
                                "twin%s: %s" % (what, j, describe(ops[j]),
                                                " (the pair was realigned by a successful "
                                                "assignment)" if realigned else "",
                                                diff_rec(dict(a, snap=sa), dict(b, snap=sb))), i,
                                data=list(inj))
        env.token(op["k"], site, "nested", exc, True)
        env.cover(op["k"], site, "nested", exc)
        env.fired["raise"] += 1
        env.planned["raise"] += 1

    def skip_run(self, trace, i, cache, env):
        """Reference twin that never executes op i: its state before position i
        and its records for the suffix."""
        if i not in cache:
            recs, e2 = self.run_twin(trace, None, skip=i)
            env.seq += e2.seq
            if i > 0:
                pre = recs[i - 1]["snap"]
            else:
                pre = self.initial_snapshot(trace)
            cache[i] = {"recs": recs, "pre": pre}
        return cache[i]

    def initial_snapshot(self, trace):
        from traits.api import push_exception_handler, pop_exception_handler
        from traits.observation import api as oapi
        env = Env(step_cap=self.STEP_CAP)
        w = World(trace["config"], env)
        try:
            return w.snapshot()
        finally:
            w.close()

    # ------------------------------------------------------------------ shrinking
    def simplify_trace(self, trace):
        cfg = trace["config"]
        hs = cfg["handlers"]
        for j in range(len(hs)):
            t = dict(trace)
            t["config"] = dict(cfg, handlers=hs[:j] + hs[j + 1:])
            yield t

    def simplify_op(self, op):
        if "vs" in op and len(op["vs"]) > 1:
            for j in range(len(op["vs"])):
                o = dict(op)
                o["vs"] = op["vs"][:j] + op["vs"][j + 1:]
                yield o

    def evidence_counts(self, agg):
        """For this level the unit of evaluation is the injection, not the
        history: evaluations = injections executed, distinct_nontrivial =
        distinct injection classes whose fault fired and whose oracles ran."""
        return {"evaluations": int(agg["fired"].get("raise", 0)),
                "distinct_nontrivial": len(agg["cells"]),
                "histories_sampled": agg["n"],
                "distinct_history_shapes": len(agg["keys"]),
                "exhaustive": False,
                "enumeration": "per sampled history the injection space (op x eligible site x "
                               "ordinal x 4 exception classes) is enumerated completely"}

    def coverage_report(self, cells):
        sites = sorted({c[1] for c in cells})
        return {"measure": "(op kind, callback site, ordinal<=3, exception class) injection classes",
                "cells_hit": len(cells), "sites_hit": sites,
                "op_kinds_hit": sorted({c[0] for c in cells})}


def describe(op):
    return "%s(%s)" % (op["k"], ", ".join("%s=%r" % (a, b) for a, b in sorted(op.items())
                                          if a not in ("k", "env", "i", "a", "b") or op["k"] in ("items", "tl", "del_items") and a in ("i", "a", "b")))


def diff_snap(a, b):
    if a is None or b is None:
        return "%r -> %r" % (a, b)
    out = []
    for idx, (x, y) in enumerate(zip(a[0], b[0])):
        for part, (p, q) in zip(("values", "reads", "registrations"), zip(x, y)):
            if p != q:
                keys = sorted(set(p) | set(q))
                for key in keys:
                    if p.get(key) != q.get(key):
                        out.append("obj%d %s.%s: %r -> %r" % (idx, part, key, p.get(key), q.get(key)))
    if a[1] != b[1]:
        out.append("tl: %r -> %r" % (a[1], b[1]))
    if a[2] != b[2]:
        out.append("active handlers: %r -> %r" % (a[2], b[2]))
    return "; ".join(out[:4]) or "(no difference found)"


def diff_rec(a, b):
    if a["key"] != b["key"]:
        return "outcome %r vs %r" % (a["key"], b["key"])
    if a["events"] != b["events"]:
        return "handler calls %s vs %s" % (a["events"][:4], b["events"][:4])
    return diff_snap(a["snap"], b["snap"])


PROP = Prop()
