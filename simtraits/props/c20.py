"""C20 - synchronised traits converge and stop when unsynchronised.

World: 2-4 objects with scalar and List traits linked by sync_trait (mutual /
one-way, aliases, several partners, added and removed at generated points).
Ops on any side: assignments (valid / invalid), every list mutator incl.
extended slices, sort, reverse, whole-list assignment.  Environment: drop + gc
of a partner at any point, also from inside a handler while a propagation is in
flight; gc.  The model propagates along the directed link graph.
"""
import gc
import sys
import weakref

from ..core import Violation, HarnessError, InjectedFault, stream, sut, exc_name
from ..core import deep
from ..values import raw
from . import c05

ID = "C20"
UNKNOWN = "<unknown>"

PAIRS = {"int": ["n", "m"], "str": ["s", "t"], "list": ["l", "k", "ld", "g_items"], "chk": ["c", "c2"]}
LIST_KINDS = ["append", "append", "insert", "extend", "iadd", "delitem_i", "delitem_s",
              "setitem_i", "setitem_s", "setitem_s_match", "pop", "pop_last", "remove", "clear",
              "reverse", "sort", "imul"]


class Prop:
    ID = ID
    LEVEL = "exploration"
    CHUNK = 60
    GC_EVERY = 10
    RUN_TIMEOUT = 10.0
    DIGEST_EVERY = 20
    STEP_CAP = 20000
    STEPCAP_IS_VIOLATION = True
    RULE = ("seeded random histories (5-40 ops) on 2-4 objects with Int, Str and List(Int) traits: "
            "sync_trait links (mutual and one-way, aliases, several partners, chains) added and "
            "removed at generated points, assignments on any side (fresh unique values, invalid "
            "values), every list mutator incl. extended slices, sort, reverse, *=, whole-list "
            "assignment, gc, and drop+gc of a partner between ops or from inside a handler while "
            "a propagation is in flight; recording handlers on every trait and items trait of "
            "every object; non-trivial = at least one change propagated across a link and one op "
            "ran after a link was removed or a partner died; distinct = distinct abstract traces")
    ASSUMPTIONS = ["both ends of a link have the same trait type",
                   "for one-way links only assignments on the source are required to reach the "
                   "target; a one-way target that was changed independently has an unknown list "
                   "after an in-place mutation of the source and is not compared until it is "
                   "assigned again",
                   "'garbage collection of a partner at any point' is read as: an object the "
                   "harness holds no reference to dies at the next collection (sync_trait refers to "
                   "its partners weakly), also when a handler of its own closes over it"]

    def gen(self, seed):
        c = stream(seed, "config")
        r = stream(seed, "ops")
        er = stream(seed, "env")
        nobj = deep(c, [2, 3, 4], [5, 6])
        nops = deep(c, [5, 10, 16, 24, 40], [60, 90])
        drop_rate = c.choice([0.0, 0.0, 0.04, 0.1])
        # "hub" histories: one object is linked to all the others under the same name (several
        # partners in one table), and partners are dropped from inside handlers more often
        hub = nobj >= 3 and c.random() < 0.4
        if hub:
            drop_rate = max(drop_rate, 0.1)
        ctr = [100]

        def fresh():
            ctr[0] += 1
            return ctr[0]

        def gen_sync():
            g = r.choice(["int", "str", "list", "list", "chk"])
            a = 0 if hub else r.randrange(nobj)
            b = (a + 1 + r.randrange(nobj - 1)) % nobj
            return {"k": "sync", "a": a, "ta": r.choice(PAIRS[g]) if r.random() < 0.3 else PAIRS[g][0],
                    "b": b, "tb": r.choice(PAIRS[g]) if r.random() < 0.3 else PAIRS[g][0],
                    "mutual": r.random() < 0.65}
        ops = [gen_sync() for _ in range(c.randint(1, 3) if not hub else c.randint(2, 4))]
        for _ in range(nops):
            x = r.random()
            o = r.randrange(nobj)
            if x < 0.10:
                op = gen_sync()
            elif x < 0.17:
                op = {"k": "unsync", "link": r.randrange(8), "mutual": r.random() < 0.8}
            elif x < 0.40:
                g = r.choice(["int", "str", "chk", "chk"])
                op = {"k": "set", "o": o, "t": r.choice(PAIRS[g]), "v": fresh(),
                      "bad": r.random() < 0.08}
                if g == "chk" and er.random() < 0.35:
                    # a fault in the validator of the source (call 1) or of the partner
                    # the change is propagated to (call 2)
                    op["env"] = [{"at": "validator:c", "nth": er.choice([1, 2, 2]), "do": "raise",
                                  "exc": er.choice(["TraitError", "ValueError", "AttributeError",
                                                    "RuntimeError"])}]
            elif x < 0.50:
                op = {"k": "setlist", "o": o, "t": r.choice(PAIRS["list"]),
                      "vs": [fresh() for _ in range(r.randint(0, 4))]}
            elif x < 0.90:
                def item():
                    return {"t": "int", "v": fresh()}
                L = list(range(r.choice([0, 1, 2, 3, 4, 5])))
                iop = c05.gen_list_op(r, L, item, LIST_KINDS)
                if iop["k"] == "remove":
                    iop["v"] = {"t": "pos", "at": r.randrange(5)}
                if iop["k"] == "sort":
                    iop["key"] = None
                iop.pop("noniter", None)
                op = {"k": "list", "o": o, "t": r.choice(PAIRS["list"]) if r.random() < 0.3 else "l",
                      "op": iop}
            elif x < 0.90 + drop_rate:
                op = {"k": "drop", "o": o}
            else:
                op = {"k": "gc"}
            if op["k"] in ("set", "setlist", "list") and drop_rate \
                    and er.random() < drop_rate * (4 if hub else 2):
                op["env"] = [{"at": "h:any", "nth": er.choice([1, 1, 2]), "do": "dropgc",
                              "o": er.randrange(nobj)}]
            if op["k"] == "sync" and op["ta"] in PAIRS["chk"] and er.random() < 0.4:
                # the object that is handed the first value rejects it (its validator
                # fails): the call raises and no link comes of it - and the links that
                # exist already, also one in the opposite direction, stay as they are
                op["env"] = [{"at": "validator:c", "nth": 1, "do": "raise",
                              "exc": er.choice(["TraitError", "ValueError", "RuntimeError"])}]
            elif op["k"] == "sync" and drop_rate and er.random() < 0.5:
                # another object (typically another partner) dies while the new link
                # hands over its first value
                op["env"] = [{"at": "h:any", "nth": 1, "do": "dropgc", "o": er.randrange(nobj)}]
            ops.append(op)
        return {"prop": ID, "seed": seed, "config": {"nobj": nobj}, "ops": ops}

    # ------------------------------------------------------------------ model helpers
    @staticmethod
    def reach(edges, start):
        seen = {start}
        todo = [start]
        order = []
        while todo:
            x = todo.pop(0)
            for (a, b) in edges:
                if a == x and b not in seen:
                    seen.add(b)
                    order.append(b)
                    todo.append(b)
        return order

    # ------------------------------------------------------------------ execution
    def execute(self, trace, env):
        from ..zoo20 import S, GROUPS
        from ..values import CUR
        from ..core import InjectedFault
        CUR["env"] = env
        from traits.api import push_exception_handler
        from traits.trait_errors import TraitError
        nobj = trace["config"]["nobj"]
        objs = [S(uid=i) for i in range(nobj)]
        vals = {}
        for i in range(nobj):
            for t, g in GROUPS.items():
                vals[(i, t)] = {"int": 0, "str": "", "list": [], "chk": 0}[g]
        edges = set()            # ((i, t), (j, u)) directed
        routed = []
        self._pushed = False
        def on_exc(o, n, old, new):
            # our own injected validator fault leaving a synchronisation handler is the
            # user's exception being reported, not a failure of the machinery: what
            # matters for the property is what the lists and values look like afterwards
            if isinstance(sys.exc_info()[1], InjectedFault):
                env.probe("injected-fault-reported-by-sync-handler")
                return
            routed.append((getattr(o, "uid", None), n))
        push_exception_handler(on_exc,
                               reraise_exceptions=False)
        self._pushed = True
        calls = []
        self.dropped_in_op = []

        inflight = []            # objects whose handlers (or assignment) are on the stack

        def mk(i):
            def h(obj, name, old, new):
                calls.append((i, name))
                inflight.append(i)
                try:
                    env.point("h:any", (i, name))
                finally:
                    inflight.pop()
            return h
        def mk_self(o):
            def h(new):
                return o         # a handler that closes over its own object
            return h
        for i, o in enumerate(objs):
            o.on_trait_change(mk(i), "n,m,s,t,l,k,ld,g_items,l_items,k_items,ld_items,g_items_items")
            o.on_trait_change(mk_self(o), "m")
        o = None          # (the loop variable must not keep the last object alive)

        uncertain = set()

        def drop(j):
            j = j % nobj
            if objs[j] is None:
                return
            if j in inflight:
                # the object is kept alive by the call in progress and goes on
                # propagating: letting go of it here changes nothing observable yet
                env.probe("drop-of-inflight-object-skipped")
                return
            if inflight:
                # dropped in the middle of a propagation: whether the change had
                # already passed through it depends on the (unspecified) notifier order
                for t in GROUPS:
                    uncertain.update(self.reach(edges, (j, t)))
            wr = weakref.ref(objs[j])
            objs[j] = None
            gc.collect()
            if not inflight and wr() is not None:
                # sync_trait refers to its partners weakly: with the last outside
                # reference gone and a collection run, the object is dead (also when a
                # handler of its own closes over it: a cycle through its instance traits)
                raise Violation("C20.partner-kept-alive",
                                "S%d was dropped (no reference left outside traits) and a "
                                "collection ran, but the object is still alive" % j, None)
            for e in list(edges):
                if e[0][0] == j or e[1][0] == j:
                    edges.discard(e)
            self.dropped_in_op.append(j)
            env.probe("partner-dropped")
        env.actions["dropgc"] = lambda ev: (drop(ev["o"]), env.probe("dropped-inside-handler"))
        stats = {"propagated": 0, "after_unlink": 0, "unlinked": False}
        for i, op in enumerate(trace["ops"]):
            env.begin_op(i, op)
            k = op["k"]
            del calls[:]
            del routed[:]
            del self.dropped_in_op[:]
            uncertain.clear()
            for node, v in list(vals.items()):
                if v is UNKNOWN and objs[node[0]] is not None:
                    got = getattr(objs[node[0]], node[1])
                    vals[node] = list(got) if isinstance(got, list) else got
            if k == "gc":
                gc.collect()
            elif k == "drop":
                drop(op["o"])
                stats["unlinked"] = True
            elif k == "sync":
                a, b = op["a"] % nobj, op["b"] % nobj
                ta, tb = op["ta"], op["tb"]
                if a != b and objs[a] is not None and objs[b] is not None \
                        and GROUPS[ta] == GROUPS[tb] \
                        and (trace["config"].get("allow_k2")
                             or not self.redundant_path(edges, (a, ta), (b, tb), GROUPS)):
                    inflight.extend([a, b])
                    try:
                        _, e = sut(objs[a].sync_trait, ta, objs[b], tb, op["mutual"])
                    finally:
                        del inflight[-2:]
                    if isinstance(e, InjectedFault):
                        # refused: nothing has changed, no link was added or lost
                        env.probe("sync-refused-by-partner-validator")
                    elif e is not None:
                        raise Violation("C20.sync-raised", "sync_trait raised %r" % (e,), i)
                    else:
                        self.model_sync(vals, edges, (a, ta), (b, tb), op["mutual"])
            elif k == "unsync":
                cur = sorted(edges)
                if cur:
                    (a, ta), (b, tb) = cur[op["link"] % len(cur)]
                    _, e = sut(objs[a].sync_trait, ta, objs[b], tb, op["mutual"], True)
                    if e is not None:
                        raise Violation("C20.unsync-raised", "sync_trait(remove=True) raised %r"
                                        % (e,), i)
                    edges.discard(((a, ta), (b, tb)))
                    if op["mutual"]:
                        edges.discard(((b, tb), (a, ta)))
                    stats["unlinked"] = True
            elif objs[op["o"] % nobj] is None:
                pass
            else:
                o = op["o"] % nobj
                t = op["t"]
                src = (o, t)
                inflight.append(o)
                if k == "set":
                    g = GROUPS[t]
                    v = op["v"] if g in ("int", "chk") else "s%d" % op["v"]
                    if op.get("bad"):
                        v = "bad" if g in ("int", "chk") else 5
                    fault = None
                    vf = [key for key, ev in env.plan.items() if ev["at"] == "validator:c"]
                    if vf:
                        # a validator fault is injected only where the order of validator
                        # calls is unambiguous: the source has exactly one partner and that
                        # partner propagates nowhere else
                        out = [b for (a, b) in edges if a == src]
                        simple = (g == "chk" and not op.get("bad") and len(out) == 1
                                  and all(b2 == src for (a2, b2) in edges if a2 == out[0]))
                        if simple:
                            fault = (env.plan[vf[0]]["nth"], out[0])
                        else:
                            for key in vf:
                                del env.plan[key]
                    _, e = sut(setattr, objs[o], t, v)
                    if fault is not None and fault[0] == 1:
                        if not isinstance(e, (InjectedFault, TraitError)):
                            raise Violation("C20.assign", "the source's validator raised but the "
                                            "assignment gave %r" % (e,), i)
                        env.probe("validator-fault-on-source")
                    elif fault is not None and fault[0] == 2 and vals[fault[1]] != v:
                        # the partner's validator failed: the source holds the new value, the
                        # partner keeps its own, nothing is raised - and the link stays intact
                        if e is not None:
                            raise Violation("C20.raised", "a failing validator on the partner made "
                                            "the assignment raise %r" % (e,), i)
                        vals[src] = v
                        env.probe("validator-fault-on-partner")
                    elif op.get("bad"):
                        if not isinstance(e, TraitError):
                            raise Violation("C20.assign", "invalid assignment gave %r" % (e,), i)
                    else:
                        if e is not None:
                            raise Violation("C20.raised", "%s.%s = %r raised %r (propagation must "
                                            "not raise)" % (objs[o], t, v, e), i)
                        self.model_assign(vals, self.live_edges(edges), src, v, stats)
                elif k == "setlist":
                    v = list(op["vs"])
                    _, e = sut(setattr, objs[o], t, list(v))
                    if e is not None:
                        raise Violation("C20.raised", "%s.%s = %r raised %r" % (objs[o], t, v, e), i)
                    self.model_assign(vals, self.live_edges(edges), src, v, stats)
                elif k == "list":
                    iop = op["op"]
                    cur = vals[src]
                    if cur is UNKNOWN:
                        cur = vals[src] = list(getattr(objs[o], t))
                    if iop["k"] == "remove":
                        if not cur:
                            inflight.pop()
                            env.end_op()
                            continue
                        iop = dict(iop, v={"t": "int", "v": cur[iop["v"]["at"] % len(cur)]})
                    trial = list(cur)
                    ret_m, val_exc, list_exc = c05.PROP.model_apply(trial, iop, raw)
                    ret, e = c05.sut_list_apply(getattr(objs[o], t), iop)
                    if val_exc or list_exc:
                        if exc_name(e) not in (val_exc, list_exc):
                            raise Violation("C20.list-op", "%s raised %r, list raises %s"
                                            % (iop["k"], e, list_exc or val_exc), i)
                    else:
                        if e is not None:
                            raise Violation("C20.raised", "%s on %s.%s raised %r (propagation must "
                                            "not raise)" % (iop["k"], objs[o], t, e), i)
                        self.model_mutate(vals, self.live_edges(edges), src, cur, trial, stats)
                else:
                    raise HarnessError(k)
                inflight.pop()
                for node in uncertain:
                    vals[node] = UNKNOWN
                if stats["unlinked"]:
                    stats["after_unlink"] += 1
            if self.dropped_in_op:
                # an object let go of from inside a handler was kept alive by the frames
                # of the propagation in progress; it may sit in a reference cycle (a handler
                # closing over its own object): the collector comes by once the op is over
                gc.collect()
            env.end_op()
            # ---- oracle
            if routed:
                raise Violation("C20.handler-exception",
                                "%s: an exception was raised inside a synchronisation handler "
                                "(routed to the exception handler for %r)"
                                % (describe(op), routed[0]), i)
            for (j, t), want in sorted(vals.items()):
                if objs[j] is None or want is UNKNOWN:
                    continue
                got = getattr(objs[j], t)
                env.oracle_evals += 1
                if (list(got) if isinstance(want, list) else got) != want:
                    raise Violation("C20.diverged",
                                    "after %s: S%d.%s holds %r, the link graph says %r"
                                    % (describe(op), j, t, got, want), i)
            per = {}
            for c in calls:
                per[c] = per.get(c, 0) + 1
            for (j, name), n in sorted(per.items()):
                if n > 1 and not (k == "sync"):
                    raise Violation("C20.double-notification",
                                    "%s: handlers of S%d.%s were called %d times for one change"
                                    % (describe(op), j, name, n), i)
            env.token(k, op.get("op", {}).get("k") if isinstance(op.get("op"), dict) else None,
                      len(edges), len(per))
            env.cover(k, op.get("op", {}).get("k") if isinstance(op.get("op"), dict) else None,
                      bool(edges))
        env.nontrivial = stats["propagated"] > 0 and stats["after_unlink"] > 0

    def live_edges(self, edges):
        return set(edges)

    @staticmethod
    def redundant_path(edges, a, b, GROUPS):
        """Known finding K2 guard: would linking list nodes a and b close a
        cycle in the undirected link graph (two paths for one in-place
        mutation, which is then applied twice)?"""
        if GROUPS[a[1]] != "list":
            return False
        if (a, b) in edges or (b, a) in edges:
            return False          # same pair again (e.g. upgrading to mutual)
        seen = {a}
        todo = [a]
        while todo:
            x = todo.pop()
            for (p, q) in edges:
                for (u, v) in ((p, q), (q, p)):
                    if u == x and v not in seen:
                        seen.add(v)
                        todo.append(v)
        return b in seen

    def model_sync(self, vals, edges, a, b, mutual):
        new = (a, b) not in edges
        edges.add((a, b))
        if new:
            v = vals[a]
            if v is not UNKNOWN:
                self.model_assign(vals, edges, b, list(v) if isinstance(v, list) else v, None,
                                  force=True)
        if mutual:
            new2 = (b, a) not in edges
            edges.add((b, a))
            if new2:
                v = vals[b]
                if v is not UNKNOWN:
                    self.model_assign(vals, edges, a, list(v) if isinstance(v, list) else v, None,
                                      force=True)

    def model_assign(self, vals, edges, src, v, stats, force=False):
        """An assignment propagates along directed edges, but only through
        nodes whose value it really changes (no change, no event)."""
        def cp(x):
            return list(x) if isinstance(x, list) else x
        old = vals[src]
        vals[src] = cp(v)
        if old is not UNKNOWN and old == v:
            return
        seen = {src}
        todo = [src]
        while todo:
            x = todo.pop(0)
            for (p, q) in sorted(edges):
                if p == x and q not in seen:
                    seen.add(q)
                    qold = vals[q]
                    vals[q] = cp(v)
                    if stats is not None:
                        stats["propagated"] += 1
                    if qold is UNKNOWN:
                        # whether q really changed (and so propagates further) is not
                        # known: everything downstream of it becomes unknown too
                        for d in self.reach(edges, q):
                            if d not in seen:
                                vals[d] = UNKNOWN
                                seen.add(d)
                    elif qold != v:
                        todo.append(q)

    def model_mutate(self, vals, edges, src, before, after, stats):
        vals[src] = list(after)
        # The event travels hop by hop, each hop replaying it on its own list and
        # emitting its own event.  A hop whose list equalled the source's takes the
        # same step ("clean"); a one-way target that had been changed independently
        # replays the positional event on different contents: its result - and
        # whatever it passes on to the nodes behind it - is not predicted.
        clean = {src}
        todo = [src]
        seen = {src}
        while todo:
            x = todo.pop(0)
            for (a, b) in sorted(edges):
                if a != x or b in seen:
                    continue
                seen.add(b)
                todo.append(b)
                if x in clean and vals[b] is not UNKNOWN and vals[b] == before:
                    clean.add(b)
                    if before != after:
                        vals[b] = list(after)
                        stats["propagated"] += 1
                else:
                    vals[b] = UNKNOWN

    def cleanup(self):
        from ..values import CUR
        CUR["env"] = None
        if getattr(self, "_pushed", False):
            from traits.api import pop_exception_handler
            pop_exception_handler()
            self._pushed = False

    def coverage_report(self, cells):
        return {"measure": "(op kind, list mutator, links present) cells", "cells_hit": len(cells)}


def describe(op):
    inner = op.get("op", {}).get("k") if isinstance(op.get("op"), dict) else None
    return "%s%s%s" % (op["k"], ("/" + inner) if inner else "",
                       (" on S%s.%s" % (op.get("o"), op.get("t"))) if "t" in op else "")


PROP = Prop()
