"""C13 - every attribute name is governed by the right trait and its policy.

World: a generated hierarchy per run (base on HasTraits / HasStrictTraits /
HasPrivateTraits plus a subclass) with explicit traits and overlapping wildcard
prefixes over the policies typed / ReadOnly / Constant / Event / Disallow /
Python; several instances of base and subclass.  Ops: get / set / del of names
matching zero, one or several prefixes in generated order (which instance or
class resolves a name first matters: resolved prefix traits are cached on the
class), add_trait / remove_trait, gc.  (Pickle restart is not part of this
world: what survives a pickle - transient private names, instance traits,
materialised defaults - is C14's subject and would only blur this oracle.)
"""
import gc
import pickle
import sys
import types

from ..core import Violation, HarnessError, stream, sut, exc_name
from ..core import deep

ID = "C13"
UNSET = "<unset>"

DYN = sys.modules.get("simtraits.dyn")
if DYN is None:
    DYN = types.ModuleType("simtraits.dyn")
    sys.modules["simtraits.dyn"] = DYN

EXPLICIT = ["x", "y", "r", "k", "ev", "dis", "foo_bar", "ab"]
PREFIXES = ["foo", "foo_bar", "fo", "a", "foo_bar_baz", ""]
NAMES = ["foo", "foo_", "foo_a", "foo_bar_a", "foo_bar_baz_q", "fo", "fox", "f", "a", "ab", "abc",
         "zzz", "_p", "__d", "x", "y", "r", "k", "ev", "dis", "foo_bar", "foo_barx",
         # companions of container traits added at run time (<name>_items)
         "zzz_items", "abc_items", "fox_items"]
POLICIES = ["int", "str", "float", "any", "readonly", "constant", "event", "disallow", "python"]
VALUES = [5, "s", 2.5, 7, "t"]


def make_trait(policy):
    from traits.api import Int, Str, Float, Any, ReadOnly, Constant, Event, Disallow, Python
    return {"int": lambda: Int(1), "str": lambda: Str("d"), "float": lambda: Float(0.5),
            "any": lambda: Any(), "readonly": lambda: ReadOnly, "constant": lambda: Constant(9),
            "event": lambda: Event(), "disallow": lambda: Disallow,
            "python": lambda: Python,
            "listint": lambda: __import__("traits.api").api.List(Int),
            # a container inside a compound trait: the class has no '<name>_items'
            # companion; the first in-place mutation adds one to THAT instance
            "ulist": lambda: __import__("traits.api").api.Union(
                None, __import__("traits.api").api.List(Int))}[policy]()


DEFAULTS = {"int": 1, "str": "d", "float": 0.5, "any": None, "constant": 9, "listint": [],
            "ulist": None}


def valid(policy, v):
    if policy == "int":
        return type(v) is int, v
    if policy == "str":
        return type(v) is str, v
    if policy == "float":
        return type(v) in (int, float), float(v) if type(v) in (int, float) else v
    if policy in ("listint", "ulist"):
        return False, v          # (the value pool holds scalars only)
    return True, v


class Prop:
    ID = ID
    LEVEL = "exploration"
    CHUNK = 60
    GC_EVERY = 10
    RUN_TIMEOUT = 10.0
    DIGEST_EVERY = 20
    RULE = ("seeded random hierarchies (base on HasTraits/HasStrictTraits/HasPrivateTraits + "
            "subclass; 0-5 explicit traits and 0-4 wildcard prefixes each, drawn from nine "
            "policies, prefixes overlapping) and histories (8-60 ops) of get / set / del on 2-4 "
            "instances of base and subclass over 22 names matching zero, one or several prefixes, "
            "exact names and leading underscores, plus add_trait / remove_trait and gc; "
            " non-trivial = some name matching >= 2 prefixes was accessed on two different "
            "instances and every outcome class (value, AttributeError, TraitError) occurred; "
            "distinct = distinct abstract traces")
    ASSUMPTIONS = ["add_trait / remove_trait are applied to names the instance has not "
                   "accessed under the previous rule (a read materialises that rule's default)",
                   "assignments use plain int/str/float values"]

    # ------------------------------------------------------------------ generation
    def gen(self, seed):
        c = stream(seed, "config")
        r = stream(seed, "ops")

        def decls(nexp, npre):
            d = {"explicit": {}, "prefix": {}}
            for n in c.sample(EXPLICIT, nexp):
                d["explicit"][n] = c.choice(POLICIES)
            for p in c.sample(PREFIXES, npre):
                d["prefix"][p] = c.choice(POLICIES)
            return d
        base = decls(c.randint(0, 5), c.randint(0, 4))
        sub = decls(c.randint(0, 3), c.randint(0, 3))
        # a second branch and a class with two bases (often without wildcards of its own)
        other = decls(c.randint(0, 3), c.randint(0, 3))
        # (the second base does not redeclare the root's catch-all: whether it or the
        # root default inherited through the first base wins is a tie between bases
        # that the statement does not settle)
        other["prefix"].pop("", None)
        both = decls(c.randint(0, 1), c.choice([0, 0, 0, 1]))
        kind = c.choice(["HasTraits", "HasTraits", "HasStrictTraits", "HasPrivateTraits"])
        uname = None
        if c.random() < 0.3:
            # every class declares Union(None, List(Int)) under one name
            uname = c.choice(["zzz", "abc", "fox"])
            base["explicit"][uname] = "ulist"
            other["explicit"][uname] = "ulist"
        # re-entrancy: a trait_added listener that declares an instance trait for some
        # names the moment they are first resolved ("declare on first use")
        listener = {}
        if c.random() < 0.3:
            for n in c.sample(NAMES, c.randint(1, 3)):
                if not n.endswith("_"):
                    listener[n] = c.choice(POLICIES)
        also = None
        if listener and c.random() < 0.5:
            # ... and the listener declares one MORE name (another one) the moment any of
            # its names is resolved
            also = [c.choice(["zzz", "abc", "fox", "f"]), c.choice(POLICIES)]
        ninst = c.randint(2, 4)
        insts = [c.choice(["base", "sub", "both", "both", "other"]) for _ in range(ninst)]
        nops = deep(c, [8, 16, 30, 60], [100, 150])
        focus = c.sample(NAMES, c.randint(3, 8))
        ops = []
        for _ in range(nops):
            x = r.random()
            name = r.choice(focus) if r.random() < 0.7 else r.choice(NAMES)
            o = r.randrange(ninst)
            if x < 0.30:
                op = {"k": "get", "o": o, "name": name}
            elif x < 0.65:
                op = {"k": "set", "o": o, "name": name, "v": r.randrange(len(VALUES))}
            elif x < 0.80:
                op = {"k": "del", "o": o, "name": name}
            elif x < 0.88:
                op = {"k": "add_trait", "o": o, "name": name, "policy": r.choice(POLICIES)}
                if r.random() < 0.25:
                    # a container trait: add_trait brings a companion '<name>_items' along,
                    # remove_trait takes it away again
                    op["name"] = r.choice(["zzz", "abc", "fox"])
                    op["policy"] = "listint"
            elif x < 0.93:
                op = {"k": "remove_trait", "o": o, "name": name}
                if r.random() < 0.4:
                    # a handler registered on the name (possibly its very first use)
                    op = {"k": "watch", "o": o, "name": name}
                    if listener and r.random() < 0.6:
                        op["name"] = r.choice(sorted(listener))
                    if r.random() < 0.4:
                        # ... or the handler registered earlier is removed again: whatever
                        # governs the name goes on governing it
                        op["k"] = "unwatch"
                if uname is not None and r.random() < 0.5:
                    # assign a list and mutate it in place
                    op = {"k": "mutate", "o": o, "name": uname}
            else:
                op = {"k": "gc"}
            ops.append(op)
        if listener and c.random() < 0.5:
            # the very first thing that happens to an object: a handler is registered on
            # a name that the listener declares when it is first resolved
            ops.insert(0, {"k": "watch", "o": c.randrange(ninst),
                           "name": c.choice(sorted(listener))})
        return {"prop": ID, "seed": seed,
                "config": {"kind": kind, "base": base, "sub": sub, "other": other, "both": both,
                           "insts": insts, "listener": listener, "also": also},
                "ops": ops}

    # ------------------------------------------------------------------ world
    @staticmethod
    def build(cfg):
        import traits.api as T
        root = getattr(T, cfg["kind"])

        def ns(d):
            out = {"__module__": "simtraits.dyn"}
            for n, pol in sorted(d["explicit"].items()):
                out[n] = make_trait(pol)
            for p, pol in sorted(d["prefix"].items()):
                out[p + "_"] = make_trait(pol)
            return out
        listener = cfg.get("listener") or {}
        base_ns = ns(cfg["base"])
        if listener:
            also = cfg.get("also")

            def _trait_added_changed(self, name):
                pol = listener.get(name)
                if pol is not None and name not in self._instance_traits():
                    if also and also[0] not in self._instance_traits() \
                            and also[0] not in self.__dict__ and also[0] != name:
                        self.add_trait(also[0], make_trait(also[1]))
                    self.add_trait(name, make_trait(pol))
            base_ns["_trait_added_changed"] = _trait_added_changed
        Base = type(T.HasTraits)("C13Base", (root,), base_ns)
        Base.__qualname__ = "C13Base"
        DYN.C13Base = Base
        out = {"base": Base}
        Other = None
        if "other" in cfg:
            other_ns = ns(cfg["other"])
            if listener:
                other_ns["_trait_added_changed"] = base_ns["_trait_added_changed"]
            Other = type(T.HasTraits)("C13Other", (root,), other_ns)
            Other.__qualname__ = "C13Other"
            DYN.C13Other = Other
            out["other"] = Other

        def derived():
            Sub = type(T.HasTraits)("C13Sub", (Base,), ns(cfg["sub"]))
            Sub.__qualname__ = "C13Sub"
            DYN.C13Sub = Sub
            d = {"sub": Sub}
            if Other is not None:
                Both = type(T.HasTraits)("C13Both", (Sub, Other), ns(cfg["both"]))
                Both.__qualname__ = "C13Both"
                DYN.C13Both = Both
                d["both"] = Both
            return d
        if cfg.get("late_sub"):
            # (known finding K8, witness only) the derived classes are created when an
            # instance of one of them is first needed - after the base class was used
            out["_derived"] = derived
        else:
            out.update(derived())
        return out

    @staticmethod
    def layers(cfg, which):
        """Declarations along the method resolution order of the class."""
        return {"base": ["base"], "sub": ["sub", "base"], "other": ["other"],
                "both": ["both", "sub", "base", "other"]}[which] and [
            cfg[k] for k in {"base": ["base"], "sub": ["sub", "base"], "other": ["other"],
                             "both": ["both", "sub", "base", "other"]}[which]]

    @staticmethod
    def class_rule(cfg, which, name):
        """Class-level governing policy of ``name`` (the rule of the statement):
        class trait of that name (own or inherited), else the wildcard with the
        longest matching prefix, else the class default."""
        layers = Prop.layers(cfg, which)
        for layer in layers:
            if name in layer["explicit"]:
                return layer["explicit"][name], "explicit:" + name
        best = None
        for layer in layers:                  # method resolution order: earlier wins ties
            for p, pol in layer["prefix"].items():
                if name.startswith(p):
                    if best is None or len(p) > len(best[0]):
                        best = (p, pol)
        # the defaults of the root class are wildcards too
        root = {"HasTraits": {"": "python"}, "HasStrictTraits": {"": "disallow"},
                "HasPrivateTraits": {"_": "any", "": "disallow"}}[cfg["kind"]]
        for p, pol in root.items():
            if name.startswith(p):
                if best is None or len(p) > len(best[0]):
                    best = (p, pol)
        return best[1], "prefix:" + best[0]

    # ------------------------------------------------------------------ execution
    def execute(self, trace, env):
        from traits.trait_errors import TraitError
        from traits.api import Undefined
        cfg = trace["config"]
        classes = self.build(cfg)
        insts = []
        for which in cfg["insts"]:
            if which not in classes:
                insts.append({"obj": None, "which": which, "itraits": {}, "state": {},
                              "touched": set()})
                continue
            o, e = sut(classes[which])
            if e is not None:
                raise Violation("C13.construct", "constructing the %s class raised %r" % (which, e), None)
            insts.append({"obj": o, "which": which, "itraits": {}, "state": {},
                          "touched": set()})
        seen_by = {}
        resolved = {}        # class -> names whose wildcard resolution is cached on the class
        listener = cfg.get("listener") or {}
        outcomes = set()
        multi = 0
        for i, op in enumerate(trace["ops"]):
            env.begin_op(i, op)
            k = op["k"]
            if k == "gc":
                gc.collect()
                env.end_op()
                continue
            rec = insts[op["o"] % len(insts)]
            if rec["obj"] is None:
                # (K8 witness) the class of this instance is created now
                classes.update(classes.pop("_derived")() if "_derived" in classes else {})
                rec["obj"], e = sut(classes[rec["which"]])
                if e is not None:
                    raise Violation("C13.construct", "constructing the %s class raised %r"
                                    % (rec["which"], e), i)
            o, which = rec["obj"], rec["which"]
            if k == "restart":
                if rec["itraits"]:
                    # instance traits are not persisted while their values are: the
                    # restore would re-assign them through the class-level rule, which
                    # is an interplay the statement does not speak about
                    env.end_op()
                    continue
                new, e = sut(lambda: pickle.loads(pickle.dumps(o, op["proto"])))
                if e is not None:
                    raise Violation("C13.restart", "pickle round trip raised %r" % (e,), i)
                rec["obj"] = new
                # pickling read every explicitly declared trait and the restore
                # assigned it: those names now hold (default) values
                for layer in ([cfg["sub"], cfg["base"]] if which == "sub" else [cfg["base"]]):
                    rec["touched"].update(layer["explicit"])
                rec["itraits"] = {}
                # events and read-only defaults: nothing to restore; values persist
                for name in list(rec["state"]):
                    pol, _ = self.class_rule(cfg, which, name)
                    if pol in ("event", "disallow"):
                        del rec["state"][name]
                env.end_op()
                env.token("restart")
                continue
            name = op["name"]
            if k in ("get", "set", "del", "watch") and name not in rec["itraits"] \
                    and not any(name in layer["explicit"] for layer in self.layers(cfg, which)) \
                    and name not in resolved.setdefault(which, set()):
                # first resolution of this name for this class: trait_added fires on this
                # instance, and the listener may declare an instance trait right away
                resolved[which].add(name)
                if name in listener:
                    also = cfg.get("also")
                    if also and also[0] != name and also[0] not in rec["itraits"] \
                            and o._trait(also[0], 1) is None \
                            and also[0] not in o.__dict__:
                        # ... and one more, under another name
                        rec["itraits"][also[0]] = also[1]
                        env.probe("declared-another-name-on-first-use")
                    rec["itraits"][name] = listener[name]
                    env.probe("declared-on-first-use")
            if k == "watch":
                # registering a handler (possibly the very first use of the name, and the
                # object's first instance-trait operation): no value changes
                wh = rec.setdefault("watchers", {})
                if name not in wh:
                    wh[name] = lambda: None
                    _, e = sut(o.on_trait_change, wh[name], name)
                    if e is not None:
                        raise Violation("C13.watch", "on_trait_change(h, %r) raised %r"
                                        % (name, e), i)
                env.end_op()
                env.token("watch")
                continue
            if k == "unwatch":
                wh = rec.setdefault("watchers", {})
                if name in wh:
                    _, e = sut(o.on_trait_change, wh.pop(name), name, remove=True)
                    if e is not None:
                        raise Violation("C13.watch", "removing the handler on %r raised %r"
                                        % (name, e), i)
                env.end_op()
                env.token("unwatch")
                continue
            if name in rec["itraits"]:
                pol, why = rec["itraits"][name], "instance trait"
            else:
                pol, why = self.class_rule(cfg, which, name)
            st = rec["state"].get(name, UNSET)
            nmatch = sum(1 for layer in self.layers(cfg, which)
                         for p in layer["prefix"] if name.startswith(p))
            if k == "add_trait":
                # (only names this instance never touched: a read materialises the
                # default of the rule then in force into the instance dictionary)
                comp = name + "_items"
                if op["policy"] == "listint" and (comp in rec["touched"] or comp in rec["itraits"]):
                    env.end_op()
                    env.token("add_trait", "skip")
                    continue
                if name not in rec["touched"] and name not in rec["itraits"] \
                        and not name.endswith("_"):
                    _, e = sut(o.add_trait, name, make_trait(op["policy"]))
                    if e is not None:
                        raise Violation("C13.add_trait", "add_trait(%r, %s) raised %r"
                                        % (name, op["policy"], e), i)
                    rec["itraits"][name] = op["policy"]
                    if op["policy"] == "listint":
                        rec["itraits"][comp] = "itemsevent"
                        rec["companions"] = dict(rec.get("companions", {}), **{name: comp})
                env.end_op()
                env.token("add_trait", op["policy"])
                continue
            if k == "mutate":
                comp = name + "_items"
                if (pol == "ulist" and name not in rec["itraits"] and comp not in rec["itraits"]
                        and comp not in rec["touched"] and comp not in listener
                        and comp not in resolved.get(which, ())
                        and not any(comp in layer["explicit"]
                                    for layer in self.layers(cfg, which))):
                    _, e = sut(lambda: (setattr(o, name, [1]), getattr(o, name).append(2)))
                    if e is not None:
                        raise Violation("C13.mutate", "%s = [1]; %s.append(2) raised %r"
                                        % (name, name, e), i)
                    rec["state"][name] = [1, 2]
                    rec["touched"].add(name)
                    # the companion is an instance trait of THIS object only
                    rec["itraits"][comp] = "itemsevent"
                    env.probe("items-companion-added-by-mutation")
                env.end_op()
                env.token("mutate")
                continue
            if k == "remove_trait":
                if name in rec["itraits"]:
                    _, e = sut(o.remove_trait, name)
                    if e is not None:
                        raise Violation("C13.remove_trait", "remove_trait(%r) raised %r" % (name, e), i)
                    del rec["itraits"][name]
                    # remove_trait also removes the value from the instance dictionary
                    rec["state"].pop(name, None)
                    rec["touched"].discard(name)
                    comp = rec.get("companions", {}).pop(name, None)
                    if comp is not None and comp in rec["itraits"]:
                        # ... and the companion traits the container trait brought along
                        del rec["itraits"][comp]
                        rec["state"].pop(comp, None)
                        rec["touched"].discard(comp)
                    elif comp is not None:
                        # the companion trait was removed by hand before: remove_trait
                        # still visits the name and drops a VALUE stored under it when the
                        # class-level rule for it happens to be resolved already - a side
                        # effect on the value, not on the governing rule; the stored value
                        # is re-read from the object at the next access
                        rec.setdefault("unknown", set()).add(comp)
                env.end_op()
                env.token("remove_trait")
                continue
            rec["touched"].add(name)
            if name in rec.get("unknown", ()):
                rec["unknown"].discard(name)
                cur = o.__dict__.get(name, UNSET)
                if cur is UNSET:
                    rec["state"].pop(name, None)
                else:
                    rec["state"][name] = cur
                st = rec["state"].get(name, UNSET)
            # ---- expected outcome from the governing policy
            if k == "get":
                if pol in ("event", "disallow", "itemsevent"):
                    want = ("AttributeError",)
                elif pol == "python":
                    want = ("AttributeError",) if st is UNSET else ("value", st)
                elif pol == "readonly":
                    want = ("value", Undefined if st is UNSET else st)
                elif pol == "constant":
                    want = ("value", 9)
                else:
                    want = ("value", DEFAULTS[pol] if st is UNSET else st)
                got_v, e = sut(getattr, o, name)
                if pol in ("listint", "ulist") and e is None and isinstance(got_v, list):
                    got_v = list(got_v)
                got = ("value", got_v) if e is None else (exc_name(e),)
            elif k == "set":
                v = VALUES[op["v"] % len(VALUES)]
                if pol in ("disallow", "constant", "itemsevent"):
                    # (the items event only takes list-event objects; the pool holds scalars)
                    want = ("TraitError",)
                elif pol == "readonly":
                    want = ("ok",) if st is UNSET else ("TraitError",)
                    if st is UNSET:
                        rec["state"][name] = v
                elif pol == "event":
                    want = ("ok",)
                elif pol in ("python", "any"):
                    want = ("ok",)
                    rec["state"][name] = v
                else:
                    ok, conv = valid(pol, v)
                    want = ("ok",) if ok else ("TraitError",)
                    if ok:
                        rec["state"][name] = conv
                _, e = sut(setattr, o, name, v)
                got = ("ok",) if e is None else (exc_name(e),)
            else:  # del
                if pol in ("disallow", "constant", "readonly"):
                    want = ("TraitError",)
                elif pol == "python":
                    want = ("ok",) if st is not UNSET else ("AttributeError",)
                    rec["state"].pop(name, None)
                else:
                    want = ("ok",)
                    rec["state"].pop(name, None)
                _, e = sut(delattr, o, name)
                got = ("ok",) if e is None else (exc_name(e),)
            env.end_op()
            env.oracle_evals += 1
            same = (got[0] == want[0]) and (len(want) < 2 or (
                got[1] is want[1] if want[1] is Undefined or want[1] is None
                else (got[1] == want[1] and type(got[1]) is type(want[1]))))
            if not same:
                raise Violation("C13.policy",
                                "%s %s on a %s instance: governed by %s (%s, via %s), expected %s, got %s"
                                % (k, name, which, pol, "instance trait" if name in rec["itraits"]
                                   else "class rule", why, show(want), show(got)), i)
            outcomes.add(got[0])
            if nmatch >= 2:
                seen_by.setdefault(name, set()).add(op["o"] % len(insts))
            env.token(k, pol, got[0], nmatch)
            env.cover(cfg["kind"], k, pol, got[0])
        multi = sum(1 for s in seen_by.values() if len(s) >= 2)
        env.nontrivial = multi > 0 and {"value", "AttributeError", "TraitError"} <= outcomes

    def cleanup(self):
        for n in ("C13Base", "C13Sub", "C13Other", "C13Both"):
            if hasattr(DYN, n):
                delattr(DYN, n)

    def simplify_trace(self, trace):
        cfg = trace["config"]
        for layer in ("base", "sub", "other", "both"):
            if layer not in cfg:
                continue
            for part in ("explicit", "prefix"):
                for key in sorted(cfg[layer][part]):
                    d = {a: b for a, b in cfg[layer][part].items() if a != key}
                    t = dict(trace)
                    t["config"] = dict(cfg, **{layer: dict(cfg[layer], **{part: d})})
                    yield t
        if len(cfg["insts"]) > 1:
            t = dict(trace)
            t["config"] = dict(cfg, insts=cfg["insts"][:-1])
            yield t

    def coverage_report(self, cells):
        return {"measure": "(root class kind, access, governing policy, outcome class) cells",
                "cells_hit": len(cells), "cells_total_upper_bound": 3 * 3 * 9 * 3}


def show(t):
    return "%s%s" % (t[0], (" " + repr(t[1])) if len(t) > 1 else "")


PROP = Prop()
