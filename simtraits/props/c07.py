"""C07 - TraitSet refines set; change events are faithful deltas; copies are
equal sets that still validate.

World: one stand-alone TraitSet with a harness validator (callback point) and
1-3 listeners; copy / deepcopy / pickle "restart" operations at any point,
after which the history continues on the copy (persist/restore as the
environment event of this property).  Model: a built-in set.
"""
import copy
import operator
import pickle

from ..core import Violation, stream, sut, exc_name, InjectedFault
from ..core import deep
from ..values import (CUR, ModelTraitError, raw, mval, make_validator,
                      RaisingIter, Spell)

ID = "C07"

OPS = ["add", "add", "discard", "remove", "pop", "clear", "update", "update",
       "ior", "iand", "isub", "ixor", "ixor", "difference_update",
       "intersection_update", "symmetric_difference_update",
       "symmetric_difference_update", "op_nonset", "copy"]

VALIDATING = {"add", "update", "ior", "ixor", "symmetric_difference_update"}


def check_event(before, after, removed, added):
    if type(removed) is not set or type(added) is not set:
        raise AssertionError("removed/added are not sets: %s/%s"
                             % (type(removed).__name__, type(added).__name__))
    if not removed <= before:
        raise AssertionError("removed %r is not a subset of the previous contents" % (removed,))
    if added & before:
        raise AssertionError("added %r intersects the previous contents" % (added,))
    if (before - removed) | added != after:
        raise AssertionError("(previous - removed) | added = %r, contents are %r"
                             % ((before - removed) | added, after))


def gen_set_op(r, item, copy_on=False, ops=OPS):
    """One set-mutator op; returns (op, #validations if nothing fails).
    ``item(validating)`` yields a value spec."""
    def items(validating, lo=0, hi=4):
        return [item(validating) for _ in range(r.randint(lo, hi))]
    k = r.choice(ops)
    if k == "copy" and not copy_on:
        k = "add"
    op = {"k": k}
    nval = 0
    if k == "add":
        op["v"] = item(True)
        nval = 1
    elif k in ("discard", "remove"):
        op["v"] = item(False)
    elif k == "update":
        op["args"] = [items(True, 0, 3) for _ in range(r.choice([0, 1, 1, 1, 2, 3]))]
        nval = sum(len(a) for a in op["args"])
        if op["args"] and r.random() < 0.1:
            op["iter_raise_arg"] = r.randrange(len(op["args"]))
            op["iter_raise_at"] = r.randint(0, len(op["args"][op["iter_raise_arg"]]))
            op["iter_exc"] = r.choice(["ValueError", "RuntimeError", "KeyError"])
    elif k in ("ior", "ixor", "symmetric_difference_update"):
        op["vs"] = items(True)
        nval = len(op["vs"])
    elif k in ("iand", "isub"):
        op["vs"] = items(False)
    elif k in ("difference_update", "intersection_update"):
        op["args"] = [items(False, 0, 4) for _ in range(r.choice([0, 1, 1, 2]))]
    elif k == "op_nonset":
        op["which"] = r.choice(["ior", "iand", "isub", "ixor"])
        op["vs"] = items(False)
    elif k == "copy":
        op["how"] = r.choice(["copy", "deepcopy", "pickle"])
        op["proto"] = r.choice([2, 3, 4, 5])
    if k in ("ior", "iand", "isub", "ixor"):
        # the class of the operand: every kind of set is as good as a set
        op["oc"] = r.choice(["set", "set", "frozenset", "frozenset", "traitset", "subclass"])
    if ("vs" in op or "args" in op) and r.random() < 0.3:
        # any iterable is as good as a list (a generator can be walked only once)
        op["as"] = r.choice(["gen", "gen", "tuple", "iter", "map"])
    return op, nval


class SetSubclass(set):
    pass


def sut_set_apply(ts, op):
    """Apply a set op (not 'copy') to the system under test."""
    k = op["k"]

    def mk_arg(specs, ai=None):
        vals = [raw(s) for s in specs]
        if ai is not None and op.get("iter_raise_arg") == ai:
            return RaisingIter(vals, op["iter_raise_at"], op["iter_exc"])
        from .c05 import shape_arg
        return shape_arg(vals, op.get("as"))
    if k == "add":
        return sut(ts.add, raw(op["v"]))
    if k == "discard":
        return sut(ts.discard, raw(op["v"]))
    if k == "remove":
        return sut(ts.remove, raw(op["v"]))
    if k == "pop":
        return sut(ts.pop)
    if k == "clear":
        return sut(ts.clear)
    if k == "update":
        return sut(ts.update, *[mk_arg(a, ai) for ai, a in enumerate(op["args"])])
    def operand(default):
        oc = op.get("oc", default)
        vals = mk_arg(op["vs"])
        if oc == "frozenset":
            return frozenset(vals)
        if oc == "traitset":
            from traits.trait_set_object import TraitSet
            return TraitSet(vals)
        if oc == "subclass":
            return SetSubclass(vals)
        return set(vals)
    if k == "ior":
        return sut(operator.ior, ts, operand("set"))
    if k == "iand":
        return sut(operator.iand, ts, operand("set"))
    if k == "isub":
        return sut(operator.isub, ts, operand("frozenset"))
    if k == "ixor":
        return sut(operator.ixor, ts, operand("set"))
    if k == "symmetric_difference_update":
        return sut(ts.symmetric_difference_update, mk_arg(op["vs"]))
    if k == "difference_update":
        return sut(ts.difference_update, *[mk_arg(a) for a in op["args"]])
    if k == "intersection_update":
        return sut(ts.intersection_update, *[mk_arg(a) for a in op["args"]])
    if k == "op_nonset":
        return sut(getattr(operator, op["which"]), ts, mk_arg(op["vs"]))
    raise AssertionError(k)


class Prop:
    ID = ID
    LEVEL = "exploration"
    CHUNK = 400
    GC_EVERY = 100
    RULE = ("seeded random histories (3-25 ops over add, discard, remove, pop, clear, update "
            "with several iterables, |=, &=, -=, ^=, difference_update, intersection_update, "
            "symmetric_difference_update, non-set operands, copy/deepcopy/pickle restarts with "
            "the history continuing on the copy) with overlapping/disjoint/invalid arguments, "
            "validator faults at the k-th item and raising iterables, against a built-in set; "
            "non-trivial = at least one content change whose event passed the delta law; "
            "distinct = distinct abstract traces (op kind, overlap pattern, outcome class, "
            "fault fired, event shape per op)")
    ASSUMPTIONS = ["items are small ints (overlap) or fresh coercible spellings (objects with a hash-seed independent hash); a coercible "
                   "spelling never collides with a current member (fresh numbers), so validating "
                   "only the items that will be added and validating all items coincide",
                   "pop() may remove any member: the model follows the system's choice"]

    def gen(self, seed):
        c = stream(seed, "config")
        r = stream(seed, "ops")
        er = stream(seed, "env")
        vk = c.choice(["none", "coerce", "point", "point"])
        listeners = [c.choice(["raw", "raw", "obs"]) for _ in range(c.randint(1, 3))]
        nops = deep(c, [3, 5, 8, 12, 18, 25], [40, 70])
        fault_rate = c.choice([0.0, 0.0, 0.1, 0.25]) if vk == "point" else 0.0
        invalid_rate = c.choice([0.0, 0.05, 0.15]) if vk != "none" else 0.0
        copy_on = c.random() < 0.6
        space = list(range(1, c.choice([3, 5, 8]) + 1))
        ctr = [100]

        def fresh():
            ctr[0] += 1
            return ctr[0]

        collide = c.random() < 0.3 and vk != "none"

        def item(validating):
            x = r.random()
            if validating and x < invalid_rate:
                return {"t": "bad"}
            if validating and collide and x > 0.92:
                # a coercible spelling of a (possibly) current member: the two readings
                # of "the same operations on validated items" part company here
                return {"t": "spell", "v": r.choice(space)}
            if validating and vk != "none" and x < invalid_rate + 0.15:
                return {"t": "spell", "v": fresh()}
            if x > 0.85:
                return {"t": "int", "v": fresh()}
            return {"t": "int", "v": r.choice(space)}

        def items(validating, lo=0, hi=4):
            return [item(validating) for _ in range(r.randint(lo, hi))]
        init = [{"t": "int", "v": v} for v in space if c.random() < 0.5]
        ops = []
        for _ in range(nops):
            op, nval = gen_set_op(r, item, copy_on)
            k = op["k"]
            if vk == "point" and nval and er.random() < fault_rate:
                op["env"] = [{"at": "validator", "nth": er.randint(1, nval), "do": "raise",
                              "exc": er.choice(["TraitError", "ValueError",
                                                "AttributeError", "RuntimeError"])}]
            elif vk == "point" and nval and er.random() < 0.03:
                op["env"] = [{"at": "validator", "nth": 1, "do": "gc"}]
            ops.append(op)
        return {"prop": ID, "seed": seed,
                "config": {"vk": vk, "init": init, "listeners": listeners,
                           # a second set next to this one (built alike, or a copy of it):
                           # neither hears the other
                           # extra raw notifiers, one of which unhooks others mid-notification
                           "unhook": ({"n": 3, "at": c.randrange(6), "who": c.randrange(3),
                                       "victims": c.sample(range(3), c.randint(1, 2))}
                                      if c.random() < 0.25 else None),
                           "sibling": c.choice([None, None, "plain", "copy", "deepcopy",
                                                "pickle"])},
                "ops": ops}

    # ------------------------------------------------------------------ model
    @staticmethod
    def model_apply(m, op, vk):
        """Returns (val_exc, set_exc); mutates m only if both None.  'pop' and
        'copy' are handled by the executor."""
        k = op["k"]
        val_exc = None
        set_exc = None
        trial = set(m)
        try:
            if k == "add":
                try:
                    trial.add(mval(op["v"], vk))
                except ModelTraitError:
                    val_exc = "TraitError"
            elif k == "discard":
                trial.discard(raw(op["v"]))
            elif k == "remove":
                trial.remove(raw(op["v"]))
            elif k == "clear":
                trial.clear()
            elif k == "update":
                out = set()
                for ai, arg in enumerate(op["args"]):
                    ra = op.get("iter_raise_at") if op.get("iter_raise_arg") == ai else None
                    for idx, s in enumerate(arg):
                        if ra is not None and idx == ra:
                            val_exc = op["iter_exc"]
                            break
                        try:
                            out.add(mval(s, vk))
                        except ModelTraitError:
                            val_exc = "TraitError"
                            break
                    else:
                        if ra is not None and ra >= len(arg):
                            val_exc = op["iter_exc"]
                    if val_exc:
                        break
                if not val_exc:
                    trial.update(out)
            elif k == "ior":
                try:
                    trial |= {mval(s, vk) for s in op["vs"]}
                except ModelTraitError:
                    val_exc = "TraitError"
            elif k == "iand":
                trial &= {raw(s) for s in op["vs"]}
            elif k == "isub":
                trial -= {raw(s) for s in op["vs"]}
            elif k in ("ixor", "symmetric_difference_update"):
                values = {raw(s) for s in op["vs"]}
                specs = {}
                for s in op["vs"]:
                    specs.setdefault(raw(s), s)
                removed = trial & values
                try:
                    added = {mval(specs[x], vk) for x in values - removed}
                except ModelTraitError:
                    val_exc = "TraitError"
                else:
                    trial ^= (removed | added)
            elif k == "difference_update":
                trial.difference_update(*[[raw(s) for s in a] for a in op["args"]])
            elif k == "intersection_update":
                trial.intersection_update(*[[raw(s) for s in a] for a in op["args"]])
            elif k == "op_nonset":
                set_exc = "TypeError"
            else:
                raise AssertionError(k)
        except KeyError:
            set_exc = "KeyError"
        if val_exc is None and set_exc is None:
            m.clear()
            m.update(trial)
        return val_exc, set_exc

    # ------------------------------------------------------------------ execute
    def execute(self, trace, env):
        from traits.trait_set_object import TraitSet
        from traits.trait_errors import TraitError
        from traits.observation.api import observe
        from traits.observation import expression
        CUR["env"] = env
        cfg = trace["config"]
        vk = cfg["vk"]
        m = {mval(s, vk) for s in cfg["init"]}
        ts = TraitSet([raw(s) for s in cfg["init"]],
                      item_validator=make_validator(vk, "validator"))
        if set(ts) != m:
            raise Violation("C07.construct", "TraitSet holds %r, expected %r" % (set(ts), m), 0)
        recs = []

        def attach(target):
            del recs[:]
            for kind in cfg["listeners"]:
                rec = []
                recs.append((kind, rec))
                if kind == "raw":
                    def notifier(s, removed, added, rec=rec):
                        env.log("raw", None)
                        rec.append((s, removed, added, set(removed), set(added)))
                    target.notifiers.append(notifier)
                else:
                    def handler(event, rec=rec):
                        env.log("obs", None)
                        rec.append((event.object, event.removed, event.added,
                                    set(event.removed), set(event.added)))
                    observe(target, expression.set_items(), handler)
        attach(ts)
        unh = None
        if cfg.get("unhook"):
            from ..sibling import Unhookers
            unh = Unhookers(ID, ts, cfg["unhook"], env)
        sib = None
        if cfg.get("sibling"):
            from ..sibling import Sibling
            sib = Sibling(ID, cfg["sibling"], ts, lambda _n: TraitSet(set(ts)), env)
        originals = []          # (object, snapshot) of sets we copied from
        for i, op in enumerate(trace["ops"]):
            env.begin_op(i, op)
            for _, rec in recs:
                del rec[:]
            if sib is not None and i % 3 == 2:
                sib.poke(recs, i)
            if unh is not None:
                unh.begin_op(i)
            k = op["k"]
            before = set(m)
            fired0 = env.fired["raise"]
            env.oracle_evals += 1
            # ---------------- persist / restore
            if k == "copy":
                how = op["how"]
                if how == "copy":
                    c, e = sut(copy.copy, ts)
                elif how == "deepcopy":
                    c, e = sut(copy.deepcopy, ts)
                else:
                    c, e = sut(lambda: pickle.loads(pickle.dumps(ts, op["proto"])))
                env.end_op()
                if e is not None:
                    raise Violation("C07.copy", "%s of a TraitSet raised %r" % (how, e), i)
                if type(c) is not TraitSet or c is ts:
                    raise Violation("C07.copy", "%s gave %r" % (how, type(c)), i)
                if set(c) != m:
                    raise Violation("C07.copy-equal", "%s of %r holds %r" % (how, m, set(c)), i)
                if vk != "none":
                    _, e = sut(c.add, None)
                    if not isinstance(e, TraitError) or set(c) != m:
                        raise Violation("C07.copy-validates",
                                        "%s of a validating TraitSet accepted an invalid item "
                                        "(raised %r, holds %r)" % (how, e, set(c)), i)
                    _, e = sut(c.update, [Spell(7000)])
                    if e is not None or 7000 not in c:
                        raise Violation("C07.copy-validates",
                                        "%s of a coercing TraitSet did not coerce (raised %r, "
                                        "holds %r)" % (how, e, set(c)), i)
                    c.discard(7000)
                originals.append((ts, set(m)))
                if unh is not None:
                    unh.dead = True      # (they stay behind on the set that was copied)
                ts = c
                attach(ts)
                env.token("copy", how)
                env.cover("copy", how, vk)
                continue
            # ---------------- ordinary ops
            ret_m = None
            collision = self.collides(op, before)
            if k == "pop":
                val_exc, set_exc = None, ("KeyError" if not m else None)
            else:
                val_exc, set_exc = self.model_apply(m, op, vk)

            ret, e = sut_set_apply(ts, op)
            if sib is not None:
                sib.after_main_op(k, i)
            if k == "pop" and e is None:
                if ret not in m:
                    raise Violation("C07.return", "pop returned %r, not a member of %r"
                                    % (ret, m), i)
                m.discard(ret)
            env.end_op()
            injected = env.fired["raise"] > fired0
            if injected:
                m.clear()
                m.update(before)
            after = set(ts)
            en = exc_name(e)
            pattern = self.overlap(op, before)
            if injected:
                if not isinstance(e, InjectedFault):
                    raise Violation("C07.fault-propagation",
                                    "%s: the validator raised an injected fault but the caller "
                                    "saw %r" % (k, e), i)
                expect_fail = True
            else:
                expect_fail = (val_exc is not None or set_exc is not None)
                if expect_fail:
                    ok = [x for x in (val_exc, set_exc) if x]
                    if en not in ok:
                        raise Violation("C07.exception-class", "%s on %r: expected %s, got %r"
                                        % (describe(op), before, " or ".join(ok), e), i)
                elif e is not None:
                    raise Violation("C07.exception-class",
                                    "%s on %r: set succeeds, TraitSet raised %r"
                                    % (describe(op), before, e), i)
            if expect_fail:
                if after != before:
                    raise Violation("C07.failure-atomicity",
                                    "%s failed with %s but contents changed %r -> %r"
                                    % (describe(op), en, before, after), i)
                for kind, rec in recs:
                    if rec:
                        raise Violation("C07.event-on-failure",
                                        "%s failed with %s but a %s listener was notified"
                                        % (describe(op), en, kind), i)
                env.token(k, "fail", en, injected, pattern)
                continue
            if collision and after != m:
                # a coercible spelling whose validated form is already a member (or occurs
                # twice in the argument): "validate only what will be added" and "apply the
                # built-in operation to the validated items" differ; either result is
                # accepted, but the event laws below must hold for what actually happened
                env.probe("collision-either-reading")
                m.clear()
                m.update(after)
            if after != m:
                raise Violation("C07.contents", "%s on %r: set gives %r, TraitSet holds %r"
                                % (describe(op), before, m, after), i)
            if k in ("ior", "iand", "isub", "ixor") and ret is not ts:
                raise Violation("C07.return", "%s did not return self" % k, i)
            changed = (m != before)
            if unh is not None:
                unh.check(changed, describe(op), i)
            shape = None
            for kind, rec in recs:
                if changed and len(rec) != 1:
                    raise Violation("C07.event-count",
                                    "%s changed %r -> %r but a %s listener got %d events"
                                    % (describe(op), before, m, kind, len(rec)), i)
                if not changed and rec:
                    raise Violation("C07.silence",
                                    "%s on %r changed nothing but a %s listener got "
                                    "(removed=%r, added=%r)"
                                    % (describe(op), before, kind, rec[0][3], rec[0][4]), i)
                for ev in rec:
                    if ev[0] is not ts:
                        raise Violation("C07.event-object", "event names another set", i)
                    try:
                        check_event(before, m, ev[1], ev[2])
                    except AssertionError as a:
                        raise Violation("C07.delta-law",
                                        "%s on %r -> %r: %s listener got (removed=%r, added=%r): %s"
                                        % (describe(op), before, m, kind, ev[3], ev[4], a), i)
                    shape = (min(len(ev[1]), 2), min(len(ev[2]), 2))
                    env.nontrivial = True
            for (orig, snap) in originals:
                if set(orig) != snap:
                    raise Violation("C07.copy-independent",
                                    "mutating the copy changed the set it was copied from", i)
            env.token(k, "ok", changed, shape, pattern)
            env.cover(k, pattern, vk)

    @staticmethod
    def collides(op, before):
        """Does a coercible spelling in the argument validate onto a current
        member or onto another item of the argument?"""
        specs = list(op.get("vs", ()))
        for a in op.get("args", ()):
            specs.extend(a)
        if "v" in op:
            specs.append(op["v"])
        plain_vals = {s["v"] for s in specs if s["t"] == "int"}
        seen = set()
        for s in specs:
            if s["t"] == "spell":
                if s["v"] in before or s["v"] in plain_vals or s["v"] in seen:
                    return True
                seen.add(s["v"])
        return False

    @staticmethod
    def overlap(op, before):
        if "v" in op:
            try:
                return "hit" if raw(op["v"]) in before else "miss"
            except TypeError:
                return "unhashable"
        specs = list(op.get("vs", ()))
        for a in op.get("args", ()):
            specs.extend(a)
        if "vs" not in op and "args" not in op:
            return "empty" if not before else "nonempty"
        hit = miss = coerc = bad = 0
        for s in specs:
            if s["t"] == "bad":
                bad = 1
            elif s["t"] in ("str", "spell"):
                coerc = 1
            elif s["v"] in before:
                hit = 1
            else:
                miss = 1
        return (hit, miss, coerc, bad, len(op.get("args", ())), len(before) == 0)

    def simplify_op(self, op):
        if "iter_raise_at" in op:
            o = dict(op)
            for f in ("iter_raise_at", "iter_raise_arg", "iter_exc"):
                o.pop(f, None)
            yield o
        if op.get("vs"):
            for j in range(len(op["vs"])):
                o = dict(op)
                o["vs"] = op["vs"][:j] + op["vs"][j + 1:]
                yield o
        if op.get("args") and "iter_raise_at" not in op:
            for j in range(len(op["args"])):
                o = dict(op)
                o["args"] = op["args"][:j] + op["args"][j + 1:]
                yield o
            for j in range(len(op["args"])):
                for q in range(len(op["args"][j])):
                    o = dict(op)
                    o["args"] = [list(a) for a in op["args"]]
                    del o["args"][j][q]
                    yield o

    def simplify_trace(self, trace):
        cfg = trace["config"]
        if len(cfg["listeners"]) > 1:
            for j in range(len(cfg["listeners"])):
                t = dict(trace)
                t["config"] = dict(cfg, listeners=cfg["listeners"][:j] + cfg["listeners"][j + 1:])
                yield t
        for j in range(len(cfg["init"])):
            t = dict(trace)
            t["config"] = dict(cfg, init=cfg["init"][:j] + cfg["init"][j + 1:])
            yield t

    def coverage_report(self, cells):
        return {"measure": "(op, overlap pattern of argument vs state, validator kind) cells",
                "cells_hit": len(cells), "ops_hit": sorted({c[0] for c in cells})}

    def cleanup(self):
        CUR["env"] = None


def describe(op):
    k = op["k"]
    if "v" in op:
        return "%s(%r)" % (k, raw(op["v"]))
    if "vs" in op:
        return "%s(%r)" % (op.get("which", k), [raw(s) for s in op["vs"]])
    if "args" in op:
        return "%s(%s)" % (k, ", ".join(repr([raw(s) for s in a]) for a in op["args"]))
    return k


PROP = Prop()
