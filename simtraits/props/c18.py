"""C18 - the compiled core is memory-safe and reference-neutral under any API use.

Two phases, selected by $C18_PHASE (the /verif/check driver runs both and
merges their evidence):

* ``san`` - the runner and its workers execute against the ASan+UBSan build of
  ctraits (LD_PRELOAD libasan/libubsan, PYTHONMALLOC=malloc).  Workload: the
  generators and executors of all other claimed properties (their own oracles
  are not this property's business and are ignored here), an adversarial world
  (handlers that add/remove handlers and traits, delete attributes or clear the
  dictionary of the object being notified, edit notifier lists during dispatch,
  values whose __del__ re-enters the object while the C code drops them,
  callbacks raising at each call, gc storms) and structured corruption of
  CTrait.__getstate__() tuples fed to __setstate__.  The oracle is the process:
  any sanitizer report, signal or abort is the violation (triaged to the
  in-flight run, minimised in child processes).
* ``ref`` - normal build: sys.getrefcount deltas of sentinel values around
  every op must equal the number of references the model says the resulting
  state holds (0 for every failing op), and closed cycles of ops repeated many
  times must plateau in sys.getallocatedblocks().
"""
import copy
import gc
import os
import pickle
import sys
import warnings
import weakref

from ..core import (Violation, HarnessError, StepCap, stream, sut, exc_name, mix, exc_class,
                    InjectedFault)
from ..core import deep

ID = "C18"
PHASE = os.environ.get("C18_PHASE", "san")

SUBS = (["C02"] * 3 + ["C04"] * 2 + ["C05", "C06", "C07"] + ["C08"] * 3 + ["C09"] * 3
        + ["C10"] * 2 + ["C11"] * 2 + ["C12"] * 2 + ["C13"] * 2 + ["C14"] * 3 + ["C16"] * 2
        + ["C20"] * 3 + ["C19"] + ["adv"] * 8 + ["corrupt"] * 5)


def load(pid):
    import importlib
    return importlib.import_module("simtraits.props.%s" % pid.lower()).PROP


class Sent:
    """Sentinel value whose reference count is watched."""
    __slots__ = ("n", "__weakref__")

    def __init__(self, n):
        self.n = n

    def __hash__(self):
        return self.n * 7919 + 3

    def __eq__(self, other):
        return self is other

    def __repr__(self):
        return "Sent%d" % self.n


class FlakyName(str):
    """An attribute name whose __hash__ raises at its k-th call."""

    def __new__(cls, s, kth):
        self = str.__new__(cls, s)
        self._calls = 0
        self._kth = kth
        return self

    def __hash__(self):
        self._calls += 1
        if self._calls == self._kth:
            raise RuntimeError("hash")
        return str.__hash__(self)

    def __eq__(self, other):
        return str.__eq__(self, other)

    def __ne__(self, other):
        return str.__ne__(self, other)


class Prop:
    ID = ID
    LEVEL = "exploration"
    CHUNK = 10
    GC_EVERY = 2
    RUN_TIMEOUT = 60.0
    DIGEST_EVERY = 5
    STEP_CAP = 3000000
    CRASH_IS_VIOLATION = True
    RULE = ("phase 'san' (ASan+UBSan build): seeded runs drawn from the generators of every other "
            "claimed property (C02, C04-C14, C16, C19, C20: full executors, their oracles ignored), "
            "an adversarial world (re-entrant handlers that register/unregister handlers, "
            "add/remove traits, delete attributes and clear the dictionary of the object being "
            "notified, edit notifier lists during dispatch, values whose __del__ re-enters while C "
            "code drops them, raising callbacks, gc storm) and structured corruption of "
            "CTrait.__getstate__() tuples fed to __setstate__; the oracle is the process (any "
            "sanitizer report / signal / abort). phase 'ref' (normal build): refcount deltas of "
            "sentinel values around each op of a reference-counting world vs a holder-count "
            "model, and 22 closed op cycles (incl. failing and succeeding walks of delegation "
            "chains: None / unfetchable delegate, circular delegation, prefix lookups) repeated "
            "in three batches of 400 that must plateau in sys.getallocatedblocks() and leave the "
            "reference counts of the long-lived objects (instances, classes, class traits, names) "
            "where they were. non-trivial = the run executed at least one op that "
            "reached compiled code on an error path or under re-entrancy (san) / changed a "
            "holder count or completed a cycle batch (ref); distinct = distinct abstract traces")
    ASSUMPTIONS = ["trusted base: gcc's AddressSanitizer and UndefinedBehaviorSanitizer, CPython's "
                   "reference counts and block counter",
                   "allocation-failure injection is not part of the workload (outside 'calls "
                   "through the documented API'; CPython itself aborts in places)"]
    COMPONENTS = {"real": ["traits Python modules", "ctraits compiled from the working tree "
                           "(-O1 -g -fsanitize=address,undefined in phase san)",
                           "CPython gc/weakref/pickle/copy (PYTHONMALLOC=malloc in phase san)"],
                  "stub": ["as in the borrowed workloads (simulated threads / UI queue)"]}

    # ------------------------------------------------------------------ generation
    def gen(self, seed):
        c = stream(seed, "c18")
        if PHASE == "ref":
            sub = c.choice(["ref", "ref", "ref", "cycle"])
        else:
            sub = c.choice(SUBS)
        if sub in ("adv", "corrupt", "ref", "cycle"):
            t = getattr(self, "gen_" + sub)(mix(seed, sub))
        else:
            t = load(sub).gen(mix(seed, "sub"))
        return {"prop": ID, "seed": seed, "sub": sub, "config": t.get("config"), "ops": t["ops"]}

    def execute(self, trace, env):
        sub = trace["sub"]
        self._sub = None
        env.token(sub)
        if sub in ("adv", "corrupt", "ref", "cycle"):
            getattr(self, "run_" + sub)(trace, env)
            return
        p = load(sub)
        self._sub = p
        env.step_cap = max(env.step_cap, getattr(p, "STEP_CAP", 20000))
        try:
            p.execute({"prop": sub, "config": trace["config"], "ops": trace["ops"]}, env)
        except Violation as v:
            # another property's oracle: reported by that property's own check
            env.probe("foreign-oracle-violation:" + v.check_id)
        except (StepCap, RecursionError):
            env.probe("foreign-step-cap")
        except HarnessError:
            # a shrunk sub-trace may be ill-formed for the borrowed executor
            env.probe("foreign-harness-error")
        env.nontrivial = True
        env.cover("sub", sub)

    def cleanup(self):
        p = getattr(self, "_sub", None)
        if p is not None and hasattr(p, "cleanup"):
            p.cleanup()
        self._sub = None
        w = getattr(self, "_adv_cleanup", None)
        if w is not None:
            w()
            self._adv_cleanup = None

    # ================================================================== adversarial world
    ADV_ACTIONS = ["reg", "unreg_self", "unreg_other", "add_trait", "remove_trait", "delattr",
                   "popdict", "cleardict", "clear_notifiers", "pop_notifier", "append_garbage",
                   "assign_again", "assign_other", "release", "gc", "raise", "mutate_list",
                   "read_default", "clone", "sync", "property_changed", "rebind_helper"]
    ADV_OPS = ["set", "set", "set", "get", "del", "list", "dict", "event", "prop", "deleg",
               "add_trait", "remove_trait", "pickle", "clone", "ctrait", "setq", "items_event",
               "reg", "unreg", "gc", "child", "evil_drop", "bad_set", "trait_set", "reset",
               "helper", "helper", "orig_default", "default_fails", "default_fails",
               "itrait_fuzz", "itrait_fuzz", "temp_delegate", "bad_name"]

    def gen_adv(self, seed):
        r = stream(seed, "adv")
        nops = deep(r, [5, 10, 20, 35], [60])
        storm = r.random() < 0.25
        ops = []
        for _ in range(nops):
            k = r.choice(self.ADV_OPS)
            op = {"k": k, "o": r.randrange(3), "name": r.choice(["a", "b", "i", "l", "d", "cv", "dflt"]),
                  "v": r.randrange(12), "n": r.randrange(4)}
            nenv = r.choice([0, 0, 1, 1, 2, 3])
            envs = []
            for _ in range(nenv):
                envs.append({"at": r.choice(["h:any", "h:any", "validator:cv", "default:dflt",
                                             "getter:p", "setter:p", "del:evil", "default:hx"]),
                             "nth": r.choice([1, 1, 2, 3]), "do": "adv",
                             "act": r.choice(self.ADV_ACTIONS), "o": r.randrange(3),
                             "name": r.choice(["a", "b", "i", "l", "cv"]), "v": r.randrange(12),
                             "exc": r.choice(["TraitError", "ValueError", "AttributeError",
                                              "RuntimeError"])})
            if r.random() < 0.2:
                # self-targeting re-entrancy: from inside the callback that decides this
                # very access, pull the rug - replace / remove the trait of the same name
                # on the same object, delete the attribute, empty the dictionary
                op["name"] = r.choice(["cv", "cv", "dflt", "a", "dh"])
                op["k"] = r.choice(["set", "setq", "trait_set", "get", "del", "bad_set"])
                if op["name"] == "dh":
                    op["k"] = "helper"
                site = {"cv": "validator:cv", "dflt": "default:dflt", "a": "h:any",
                        "dh": "default:hx"}[op["name"]]
                envs.append({"at": site, "nth": r.choice([1, 1, 2]), "do": "adv",
                             "act": "rebind_helper" if op["name"] == "dh" else
                             r.choice(["add_trait", "add_trait", "remove_trait", "delattr",
                                       "popdict", "cleardict"]),
                             "o": op["o"], "name": op["name"], "v": r.randrange(12),
                             "exc": "ValueError"})
            if envs:
                op["env"] = envs
            ops.append(op)
        # how the interpreter treats warnings (traits turns an AttributeError of a default
        # method into a warning plus the error): silenced, raised as errors, or shown
        return {"config": {"storm": storm,
                           "warnings": r.choice(["ignore", "ignore", "error", "always"])},
                "ops": ops}

    def run_adv(self, trace, env):
        import traits.api as T
        from traits.api import push_exception_handler, pop_exception_handler
        from traits.observation import api as oapi
        cfg = trace["config"] or {}
        holder = {"objs": [], "keep": []}
        handlers = []

        class Evil:
            """A value that re-enters the world while the C code drops it."""

            def __init__(self, n):
                self.n = n

            def __del__(self):
                try:
                    env.point("del:evil", self.n)
                except BaseException:      # noqa: BLE001 - exceptions in __del__ are printed and ignored
                    pass

        class EvilHook:
            """A callable (hook, getter, setter, validator) that only the trait definition
            refers to; when the trait lets go of it, its finalizer uses the attribute the
            trait governs - while the C code is in the middle of replacing the hook."""

            def __init__(self, owner, name, n):
                # (the owner is held weakly: no reference cycle, so the finalizer runs
                # the moment the trait lets go of the hook, not when a collector comes by)
                self.owner, self.name, self.n = weakref.ref(owner), name, n

            def __call__(self, *a):
                env.point("h:any", "evilhook")
                return a[-1] if a else None

            def __del__(self):
                try:
                    env.point("del:evil", self.n)
                    o, nm = self.owner(), self.name
                    if o is None:
                        return
                    try:
                        setattr(o, nm, self.n)
                    except Exception:      # noqa: BLE001
                        pass
                    try:
                        getattr(o, nm)
                    except Exception:      # noqa: BLE001
                        pass
                except BaseException:      # noqa: BLE001
                    pass

        def value(n):
            n = n % 12
            if n < 4:
                return n
            if n < 7:
                return Evil(n)
            if n == 7:
                return [Evil(n), n]
            if n == 8:
                return None
            if n == 9:
                return "s"
            if n == 10:
                return holder["objs"][0] if holder["objs"] else None
            return 2.5

        def H(tag):
            def h(*args):
                env.point("h:any", tag)
            return h

        class CV(T.TraitType):
            default_value = 0

            def validate(self, object, name, value):
                env.point("validator:cv")
                if type(value) is int:
                    return value
                self.error(object, name, value)

        def _dflt_default(obj):
            env.point("default:dflt")
            return [Evil(99)]

        def _get_p(obj):
            env.point("getter:p")
            return obj.__dict__.get("_pv")

        def _set_p(obj, v):
            env.point("setter:p")
            obj.__dict__["_pv"] = v
        def _af_default(obj):
            # a default method that fails (AttributeError is turned into a warning plus
            # the error by the compiled layer)
            raise exc_class(holder.get("af_exc", "AttributeError"))("no such thing")

        def _get_vp(obj):
            return obj.__dict__.get("_vp", 0)

        def _set_vp(obj, v):
            obj.__dict__["_vp"] = v

        def _get_tmp(obj):
            # a delegate that exists only for the duration of the access
            env.point("getter:tmp")
            return Hx()

        def _hx_default(obj):
            env.point("default:hx")
            return [Evil(98)]
        # an object that only its owner refers to, reached through delegation
        Hx = type(T.HasTraits)("Hx", (T.HasTraits,), {"hx": T.Any(), "_hx_default": _hx_default})
        st1, st2 = H("static_a"), H("static_l_items")
        with warnings.catch_warnings():
            warnings.simplefilter("ignore")
            Adv = type(T.HasTraits)("Adv", (T.HasTraits,), {
                "a": T.Any(), "b": T.Any(comparison_mode=T.ComparisonMode.none), "i": T.Int(),
                "l": T.List(T.Any()), "d": T.Dict(T.Str, T.Any()), "ev": T.Event(), "cv": CV(),
                "dflt": T.Any(), "p": T.Property(), "cp": T.Property(observe="a"),
                "partner": T.Instance(T.HasTraits), "dv": T.DelegatesTo("partner", prefix="a"),
                "child": T.Instance(T.HasTraits), "ro": T.ReadOnly,
                "helper": T.Instance(T.HasTraits), "dh": T.DelegatesTo("helper", prefix="hx"),
                # setattr_original_value traits with a dynamic default (a fresh object)
                "ex": T.Expression(), "_ex_default": lambda obj: "1 + %d" % (len(holder["keep"]) + 7),
                "sup": T.Supports(T.Interface), "_sup_default": lambda obj: None,
                "ph": T.PrototypedFrom("helper", prefix="hx"),
                "af": T.Any(), "_af_default": _af_default,
                # a validated property (its C setter lives in the post_setattr slot)
                "vp": T.Property(T.Int), "_get_vp": _get_vp, "_set_vp": _set_vp,
                # delegation through a property that returns a fresh object each time
                "tmp": T.Property(), "_get_tmp": _get_tmp,
                "dt": T.DelegatesTo("tmp", prefix="hx"),
                "pt": T.PrototypedFrom("tmp", prefix="hx"),
                "_dflt_default": _dflt_default, "_get_p": _get_p, "_set_p": _set_p,
                "_get_cp": T.cached_property(lambda obj: (env.point("getter:cp"), obj.a)[1]),
                "_a_changed": lambda obj, old, new: st1(), "_l_items_changed": lambda obj, ev: st2(),
                "_anytrait_changed": lambda obj, name, old, new: env.point("h:any", "anytrait"),
            })
        objs = [Adv() for _ in range(3)]
        holder["objs"] = objs
        for j, o in enumerate(objs):
            o.partner = objs[(j + 1) % 3]
            for name in ("a", "b", "l", "l_items", "d_items", "cv", "ev", "p", "cp", "dv", "child"):
                h = H("otc_%s" % name)
                handlers.append((o, "otc", name, h))
                o.on_trait_change(h, name)
            for expr in ("a", "l.items", "d.items", "child.a", "cp", "*"):
                h = H("obs_%s" % expr)
                handlers.append((o, "obs", expr, h))
                o.observe(h, expr)
        push_exception_handler(lambda *a: None, reraise_exceptions=False)
        oapi.push_exception_handler(lambda ev: None, reraise_exceptions=False)
        old_thresh = gc.get_threshold()

        def done():
            oapi.pop_exception_handler()
            pop_exception_handler()
            gc.set_threshold(*old_thresh)
            gc.disable()
        self._adv_cleanup = done
        depth = [0]
        wmode = cfg.get("warnings", "ignore")

        def safe(f, *a, **k):
            try:
                with warnings.catch_warnings():
                    warnings.simplefilter(wmode)
                    if wmode == "always":
                        warnings.showwarning = lambda *a2, **k2: None    # (kept off the log)
                    return f(*a, **k)
            except RecursionError:
                return None
            except Exception:      # noqa: BLE001 - any Python exception is a legal outcome
                return None

        def obj(j):
            live = [x for x in holder["objs"] if x is not None]
            if not live:
                # (construction itself may raise once the class traits were fuzzed)
                holder["objs"][0] = safe(Adv) or T.HasTraits()
                live = [holder["objs"][0]]
            return live[j % len(live)]

        def act(ev):
            if depth[0] > 3:
                return
            depth[0] += 1
            try:
                a = ev["act"]
                o = obj(ev["o"])
                name = ev["name"]
                if a == "raise":
                    raise exc_class(ev["exc"])("adversarial")
                if a == "reg":
                    h = H("late")
                    handlers.append((o, "otc", name, h))
                    safe(o.on_trait_change, h, name)
                    safe(o.observe, H("late_obs"), name)
                elif a in ("unreg_self", "unreg_other") and handlers:
                    ho, mech, nm, h = handlers[ev["v"] % len(handlers)]
                    if mech == "otc":
                        safe(ho.on_trait_change, h, nm, remove=True)
                    else:
                        safe(ho.observe, h, nm, remove=True)
                elif a == "add_trait":
                    safe(o.add_trait, "x%d" % (ev["v"] % 3), T.Any())
                    safe(o.add_trait, name, T.Any())
                elif a == "remove_trait":
                    safe(o.remove_trait, "x%d" % (ev["v"] % 3))
                    safe(o.remove_trait, name)
                elif a == "delattr":
                    safe(delattr, o, name)
                elif a == "popdict":
                    o.__dict__.pop(name, None)
                elif a == "cleardict":
                    o.__dict__.clear()
                elif a == "clear_notifiers":
                    t = safe(o._trait, name, 2)
                    if t is not None:
                        safe(lambda: t._notifiers(True).clear())
                    safe(lambda: o._notifiers(True).clear())
                elif a == "pop_notifier":
                    t = safe(o._trait, name, 2)
                    if t is not None:
                        safe(lambda: t._notifiers(True).pop())
                elif a == "append_garbage":
                    t = safe(o._trait, name, 2)
                    if t is not None:
                        safe(lambda: t._notifiers(True).append(H("raw")))
                        safe(lambda: t._notifiers(True).append(5))
                elif a == "assign_again":
                    safe(setattr, o, name, value(ev["v"]))
                elif a == "assign_other":
                    safe(setattr, obj(ev["o"] + 1), name, value(ev["v"]))
                elif a == "release":
                    j = ev["o"] % len(holder["objs"])
                    holder["objs"][j] = None
                elif a == "gc":
                    gc.collect()
                elif a == "mutate_list":
                    safe(lambda: o.l.append(value(ev["v"])))
                    safe(lambda: o.l.clear())
                elif a == "read_default":
                    safe(getattr, o, "dflt")
                    safe(getattr, o, "l")
                elif a == "clone":
                    safe(o.clone_traits)
                elif a == "sync":
                    safe(o.sync_trait, name, obj(ev["o"] + 1))
                elif a == "rebind_helper":
                    # drop the only reference to the delegate while it is being read
                    safe(setattr, o, "helper", Hx() if ev["v"] % 2 else None)
                elif a == "property_changed":
                    safe(o.trait_property_changed, "p", 1, 2)
                    safe(o.trait_property_changed, "cp", 1)
            finally:
                depth[0] -= 1
        env.actions["adv"] = act
        if cfg.get("storm"):
            # young-generation collections at every opportunity; the oldest generation is
            # collected by hand at the end of every fourth op, never on the interpreter's own
            # initiative (that depends on how large the process heap has grown, i.e. on
            # the runs this worker executed before)
            gc.collect()
            gc.enable()
            gc.set_threshold(1, 1, 1 << 30)
        for i, op in enumerate(trace["ops"]):
            env.begin_op(i, op)
            k = op["k"]
            o = obj(op["o"])
            name = op["name"]
            v = value(op["v"])
            if k == "set":
                safe(setattr, o, name, v)
            elif k == "bad_set":
                safe(setattr, o, "i", v)
                safe(setattr, o, "ro", v)
                safe(setattr, o, "ro", v)
                safe(setattr, o, "cp", v)
            elif k == "default_fails":
                # a failing default method met by a first read, by a first assignment with
                # a listener (the old value is wanted) and by a deletion; the exception is
                # looked at the way a caller would (its cause and context, a formatted
                # traceback) before it is dropped
                holder["af_exc"] = ["AttributeError", "AttributeError", "ValueError",
                                    "TraitError"][op["n"] % 4]
                if cfg.get("storm"):
                    # the interpreter's warning machinery keeps process-wide registries:
                    # what it allocates depends on earlier runs, and in storm mode every
                    # allocation is a collection point - no collections inside this op
                    gc.disable()

                def looked_at(f, *a2):
                    try:
                        with warnings.catch_warnings():
                            warnings.simplefilter(wmode)
                            if wmode == "always":
                                warnings.showwarning = lambda *a3, **k3: None
                            f(*a2)
                    except RecursionError:
                        pass
                    except Exception as exc:      # noqa: BLE001
                        # (no traceback / linecache: their process-wide caches would make
                        # the allocation pattern depend on earlier runs)
                        seen = 0
                        while exc is not None and seen < 6:
                            repr(exc), str(exc), exc.args
                            tb = exc.__traceback__
                            while tb is not None:
                                tb.tb_frame.f_code.co_name
                                tb = tb.tb_next
                            nxt = exc.__cause__ or exc.__context__
                            exc = nxt
                            seen += 1
                        exc = nxt = tb = None
                # (in this world earlier ops may have left the class in a state in which
                # even construction raises: any Python exception is a legal outcome)
                fresh_o = safe(Adv)
                if fresh_o is not None:
                    looked_at(getattr, fresh_o, "af")
                    looked_at(getattr, fresh_o, "af")
                fresh_o2 = safe(Adv)
                if fresh_o2 is not None:
                    safe(fresh_o2.on_trait_change, H("af"), "af")
                    looked_at(setattr, fresh_o2, "af", v)
                    looked_at(delattr, fresh_o2, "af")
                del fresh_o, fresh_o2
                if cfg.get("storm"):
                    gc.enable()
            elif k == "orig_default":
                # first reads / assignments / deletions on fresh objects (defaults not yet
                # computed) of the original-value traits
                # (the attribute fuzz works on SHALLOW copies of trait definitions, which
                # share their metadata dictionary with the class trait: after it even
                # construction may raise - any Python exception is a legal outcome here)
                fresh_o = safe(Adv)
                if fresh_o is not None:
                    safe(getattr, fresh_o, "ex")
                    safe(getattr, fresh_o, "ex_")
                    safe(getattr, fresh_o, "sup")
                fresh_o2 = safe(Adv)
                if fresh_o2 is not None:
                    safe(fresh_o2.on_trait_change, H("ex"), "ex")
                    safe(setattr, fresh_o2, "ex", "2 + 2")
                    safe(delattr, fresh_o2, "ex")
                    safe(getattr, fresh_o2, "ex")
                del fresh_o, fresh_o2
            elif k == "helper":
                safe(setattr, o, "helper", Hx())
                safe(getattr, o, "dh")
                safe(getattr, o, "ph")
                safe(setattr, o, "helper", Hx())
                safe(setattr, o, "dh", v)
                safe(setattr, o, "ph", v)
                safe(delattr, o, "ph")
                safe(getattr, o, "ph")
            elif k == "get":
                safe(getattr, o, name)
                safe(getattr, o, "cp")
                safe(getattr, o, "p")
                safe(getattr, o, "ev")
            elif k == "del":
                safe(delattr, o, name)
            elif k == "list":
                safe(lambda: o.l.append(v))
                safe(lambda: o.l.extend([v, Evil(50)]))
                safe(lambda: o.l.__setitem__(slice(0, 2), [v]))
                safe(lambda: o.l.pop())
            elif k == "dict":
                safe(lambda: o.d.__setitem__("k%d" % op["n"], v))
                safe(lambda: o.d.update({"q": v}))
                safe(lambda: o.d.pop("k%d" % op["n"], None))
                safe(lambda: o.d.__setitem__(5, v))
            elif k == "event":
                safe(setattr, o, "ev", v)
            elif k == "prop":
                safe(setattr, o, "p", v)
                safe(getattr, o, "p")
            elif k == "deleg":
                safe(setattr, o, "dv", v)
                safe(getattr, o, "dv")
                safe(delattr, o, "dv")
            elif k == "add_trait":
                safe(o.add_trait, "x%d" % op["n"], T.Int())
                safe(setattr, o, "x%d" % op["n"], v)
            elif k == "remove_trait":
                safe(o.remove_trait, "x%d" % op["n"])
            elif k == "pickle":
                safe(lambda: pickle.loads(pickle.dumps(o, 2 + op["n"] % 4)))
            elif k == "clone":
                safe(o.clone_traits)
                safe(copy.deepcopy, o)
                safe(copy.copy, o)
            elif k == "ctrait":
                t = safe(o.trait, name)
                if t is not None:
                    safe(lambda: pickle.loads(pickle.dumps(t)))
                    safe(copy.deepcopy, t)
                    safe(t.__getstate__)
                    safe(t.clone, t)
                    # every attribute of a (throw-away copy of the) trait definition object:
                    # read, delete, assign values of several kinds
                    t2 = safe(copy.copy, t)
                    if t2 is not None:
                        attrs = sorted(a for a in dir(t2) if not a.startswith("__"))
                        an = attrs[op["n"] * 7 % len(attrs)]
                        for an in (an, attrs[op["v"] % len(attrs)]):
                            safe(getattr, t2, an)
                        # the setters that take several arguments, with well- and
                        # ill-formed ones - and then the thing is USED
                        for kind in (op["n"] % 11, 7, 8):
                            for g in (v, (H("f"), ()), (H("f"), (), None), (H("f"), (), {}),
                                      (1, 2, 3), None, H("f"), []):
                                safe(t2.set_default_value, kind, g)
                                safe(t2.default_value_for, o, name)
                                safe(t2.default_value)
                        for args in ((), (v,), (H("v"),), (1, 2, 3), (None, None)):
                            safe(lambda: t2.set_validate(*args))
                            safe(t2.validate, o, name, v)
                            safe(lambda: t2.delegate(*args))
                            safe(lambda: t2.property_fields)
                            safe(lambda: t2._notifiers(*args))
                            safe(delattr, t2, an)
                            safe(getattr, t2, an)
                            for g in (v, None, 1, "s", (1, 2), H("garbage")):
                                if not callable(getattr(type(t2), an, None)) or True:
                                    safe(setattr, t2, an, g)
                            safe(getattr, t2, an)
            elif k == "itrait_fuzz":
                # the object's OWN copy of a trait definition (instance trait): attributes
                # deleted / assigned values of several kinds - and then the attribute is
                # USED through the object
                nm = ["vp", "p", "cv", "dv", "a", "dflt", "ro", "dh", "ex", "l"][op["v"] % 10]
                if cfg.get("storm"):
                    # the hooks below sit in reference cycles and their finalizers log: in
                    # storm mode WHEN the collector finds them depends on how much the
                    # interpreter's own caches allocate (process history); collections are
                    # suspended for this op and one is made at its end
                    gc.disable()
                it = safe(o._trait, nm, 2)
                if it is not None:
                    attrs = sorted(a for a in dir(it) if not a.startswith("__")
                                   and not callable(getattr(type(it), a, None))) + ["__dict__"]
                    an = attrs[op["n"] * 5 % len(attrs)] if op["n"] % 3 else "post_setattr"
                    g = [None, H("hook"), 1, "s", {}][op["o"] % 5]
                    if op["n"] % 2:
                        safe(delattr, it, an)
                    else:
                        safe(setattr, it, an, g)
                    safe(getattr, it, an)
                    # hooks and accessors that only the trait refers to, replaced or cleared:
                    # their finalizers use the attribute while the setter is at work
                    if op["n"] % 2 == 0:
                        safe(setattr, it, "post_setattr", EvilHook(o, nm, 50 + op["n"]))
                        safe(setattr, o, nm, v)
                        safe(setattr, it, "post_setattr", None if op["o"] % 2 else
                             EvilHook(o, nm, 60))
                        safe(setattr, it, "post_setattr", None)
                    else:
                        for rnd in range(2):
                            safe(setattr, it, "property_fields",
                                 (EvilHook(o, nm, 70 + rnd), EvilHook(o, nm, 80 + rnd),
                                  EvilHook(o, nm, 90 + rnd)))
                            safe(getattr, o, nm)
                            safe(setattr, o, nm, v)
                        safe(it.set_validate, EvilHook(o, nm, 95))
                        safe(it.set_validate, EvilHook(o, nm, 96))
                        safe(setattr, o, nm, v)
                    t3 = safe(copy.deepcopy, it)
                    if t3 is not None:
                        safe(delattr, t3, "__dict__")
                        safe(getattr, t3, "__dict__")
                        safe(setattr, t3, "__dict__", g)
                        safe(getattr, t3, "desc")
                    del t3
                    safe(setattr, o, nm, v)
                    safe(setattr, o, nm, 3)
                    safe(getattr, o, nm)
                    safe(delattr, o, nm)
                    safe(getattr, o, nm)
                del it
                if cfg.get("storm"):
                    gc.collect()
                    gc.enable()
            elif k == "temp_delegate":
                safe(setattr, o, "dt", v)
                safe(getattr, o, "dt")
                safe(setattr, o, "pt", v)
                safe(getattr, o, "pt")
                safe(delattr, o, "pt")
                safe(o.base_trait, "dt")
            elif k == "bad_name":
                # an attribute name whose hash fails at the k-th use (a str subclass)
                for kth in (1, 2, 3):
                    nmx = FlakyName(["a", "i", "zz", "cv"][op["n"] % 4], kth)
                    safe(setattr, o, nmx, v)
                    safe(getattr, o, nmx)
                    safe(delattr, o, nmx)
                    del nmx
            elif k == "setq":
                safe(o.trait_setq, **{name: v})
                safe(o.trait_set, **{name: v, "i": op["n"]})
            elif k == "trait_set":
                safe(o.trait_set, a=v, i="bad", l=[v])
                safe(o.trait_get, "a", "i", "nope")
            elif k == "items_event":
                safe(o.trait_items_event, "l_items", v, None)
                safe(o.trait_property_changed, name, v)
            elif k == "reg":
                h = H("op_reg")
                handlers.append((o, "otc", name, h))
                safe(o.on_trait_change, h, name, priority=bool(op["n"] % 2))
            elif k == "unreg" and handlers:
                ho, mech, nm, h = handlers[op["v"] % len(handlers)]
                if mech == "otc":
                    safe(ho.on_trait_change, h, nm, remove=True)
                else:
                    safe(ho.observe, h, nm, remove=True)
            elif k == "gc":
                gc.collect()
            elif k == "child":
                safe(setattr, o, "child", obj(op["o"] + 1))
                safe(setattr, o, "child", None)
            elif k == "evil_drop":
                safe(setattr, o, "a", Evil(70))
                safe(setattr, o, "a", Evil(71))
                safe(setattr, o, "b", [Evil(72)])
                safe(setattr, o, "b", None)
            elif k == "reset":
                safe(o.reset_traits)
                safe(o.trait_names)
                safe(o.all_trait_names)
                safe(o._instance_traits)
            del v
            if cfg.get("storm") and i % 4 == 3:
                gc.collect()
            env.end_op()
            env.token(k, len(op.get("env", ())))
        env.nontrivial = True
        env.cover("adv", cfg.get("storm", False))
        holder["objs"] = []
        del objs[:]
        del handlers[:]
        done()
        self._adv_cleanup = None
        gc.collect()

    # ================================================================== corrupted trait state
    # only the function-table index fields: arbitrary values in the other fields
    # (default value shape, flag bits, handler objects) describe states that no
    # documented API produces and are outside the statement's quantifier
    CORRUPT_FIELDS = [0, 1, 2, 4, 11]

    def gen_corrupt(self, seed):
        r = stream(seed, "corrupt")
        ops = []
        for _ in range(r.choice([2, 4, 8])):
            how = r.choice(["index", "index", "index", "type", "truncate", "pyint"])
            # ("swap" exchanges two index fields; "pyint" is the documented pre-6.0 pickle
            # shape in which callables were replaced by -1)
            ops.append({"k": "corrupt", "def": r.randrange(14), "how": how,
                        "field": r.choice(self.CORRUPT_FIELDS),
                        # out of range for every function table: an in-range but different
                        # index describes a consistent-looking but different trait kind whose
                        # other fields no longer fit (type confusion by construction), which
                        # no documented API produces
                        "v": r.choice([-1, -2, -7, 24, 25, 30, 64, 1000, 2 ** 31 - 1,
                                       -2 ** 31, 2 ** 40]),
                        "n": r.randrange(15), "use": r.random() < 0.8})
        return {"config": {}, "ops": ops}

    def run_corrupt(self, trace, env):
        from traits.ctrait import CTrait
        from ..zoo14 import Defs, Plain
        from .c14 import TRAIT_DEFS
        for i, op in enumerate(trace["ops"]):
            env.begin_op(i, op)
            name = TRAIT_DEFS[op["def"] % len(TRAIT_DEFS)]
            ct = Defs.class_traits()[name]
            state, e = sut(ct.__getstate__)
            if e is not None or not isinstance(state, tuple):
                env.end_op()
                continue
            st = list(state)
            how = op["how"]
            f = op["field"] % len(st)
            if how == "index":
                st[f] = op["v"]
            elif how == "type":
                st[f] = ["not", "an", "int"] if op["n"] % 2 else None
            elif how == "truncate":
                st = st[:op["n"] % len(st)]
            elif how == "swap":
                g = self.CORRUPT_FIELDS[op["n"] % len(self.CORRUPT_FIELDS)]
                st[f], st[g] = st[g], st[f]
            elif how == "pyint":
                # the pre-6.0 pickle shim: callables replaced by an int
                # (only callables were replaced in old pickles; fast-validator tuples
                # were stored as they are)
                g = 3 if op["n"] % 2 else 5
                if st[13] is not None and callable(st[g]):
                    st[g] = -1
                elif op["n"] % 3 == 0:
                    # ... and a trait definition that had no handler object (or one that
                    # lacks the method the shim looks up): the integer cannot be resolved
                    st[g] = -1
                    st[13] = None if op["n"] % 2 else Plain()
            new = CTrait(0)
            _, e = sut(new.__setstate__, tuple(st))
            env.log("setstate", (name, how, exc_name(e)))
            if e is None and op.get("use"):
                holder = Plain()
                _, e1 = sut(holder.add_trait, "x", new)
                for v in (1, "a", None, [1], 2.5):
                    sut(setattr, holder, "x", v)
                    sut(getattr, holder, "x")
                sut(delattr, holder, "x")
                sut(new.__getstate__)
                sut(lambda: new.default_value())
                sut(lambda: new.is_mapped)
                sut(lambda: new.validate(holder, "x", 3))
            env.end_op()
            env.token(name, how, op["field"], exc_name(e))
        env.nontrivial = True
        env.cover("corrupt", 0)

    # ================================================================== reference neutrality
    REF_OPS = ["set_any", "set_any", "set_int_bad", "set_cmp_none", "list_append", "list_pop",
               "list_assign", "list_setslice", "list_bad", "dict_set", "dict_pop", "dict_update",
               "set_add", "set_discard", "event", "prop_set", "deleg_set", "del_any", "read",
               "validator_raises", "handler_raises", "readonly", "readonly_again", "trait_set",
               "setq", "add_trait_set", "clone_drop", "pickle_drop", "default_read", "tuple_set",
               "tuple_convert", "tuple_convert", "union_set", "either_set", "instance_set",
               "event_quiet", "quiet_mix", "numeric", "numeric"]

    def gen_ref(self, seed):
        r = stream(seed, "ref")
        ops = []
        for _ in range(r.choice([5, 10, 20, 30])):
            k = r.choice(self.REF_OPS)
            op = {"k": k, "o": r.randrange(2), "s": r.randrange(6), "n": r.randrange(4)}
            if k in ("validator_raises", "handler_raises"):
                op["env"] = [{"at": "validator:cv" if k == "validator_raises" else "h:any",
                              "nth": 1, "do": "raise",
                              "exc": r.choice(["TraitError", "ValueError", "AttributeError",
                                               "RuntimeError"])}]
            ops.append(op)
        return {"config": {"handlers": r.random() < 0.7}, "ops": ops}

    def run_ref(self, trace, env):
        import traits.api as T
        from traits.api import push_exception_handler, pop_exception_handler
        from traits.observation import api as oapi
        cfg = trace["config"] or {}

        class CV(T.TraitType):
            default_value = None

            def validate(self, object, name, value):
                env.point("validator:cv")
                return value

        def _get_p(obj):
            return obj.__dict__.get("_pv")

        def _set_p(obj, v):
            obj.__dict__["_pv"] = v

        def h_static(obj, old, new):
            env.point("h:any", "static")
        with warnings.catch_warnings():
            warnings.simplefilter("ignore")
            R = type(T.HasTraits)("R", (T.HasTraits,), {
                "a": T.Any(), "n": T.Any(comparison_mode=T.ComparisonMode.none), "i": T.Int(),
                "l": T.List(T.Any()), "li": T.List(T.Int()), "d": T.Dict(T.Str, T.Any()),
                "st": T.Set(T.Any()), "ev": T.Event(), "cv": CV(), "p": T.Property(),
                "ro": T.ReadOnly, "tp": T.Tuple(T.Any(), T.Int()),
                "tc": T.Tuple(T.Float(), T.Any(), T.Any()), "un": T.Union(T.Int(), T.Any()),
                "ei": T.Either(T.Str(), T.Instance(Sent)), "ins": T.Instance(Sent),
                "partner": T.Instance(T.HasTraits), "dv": T.DelegatesTo("partner", prefix="a2"),
                "a2": T.Any(),
                # numeric validators, alone and as alternatives of compound traits
                "rg": T.Range(0.0, 1.0), "ri": T.Range(0, 10),
                "er": T.Either(T.Range(0.0, 1.0), T.Str()),
                "ef": T.Either(T.Range(0.0, 1.0), T.Float()),
                "eir": T.Either(T.Range(0, 10), T.Str()),
                "eii": T.Either(T.Range(0, 10), T.Int()),
                "efs": T.Either(T.Float(), T.Str()), "eis": T.Either(T.Int(), T.Str()),
                "trg": T.Tuple(T.Range(0.0, 1.0), T.Any()),
                "_get_p": _get_p, "_set_p": _set_p, "_a_changed": h_static,
            })
        objs = [R(), R()]
        objs[0].partner, objs[1].partner = objs[1], objs[0]
        if cfg.get("handlers"):
            def otc(obj, name, old, new):
                env.point("h:any", "otc")

            def obs(event):
                env.point("h:any", "obs")
            for o in objs:
                o.on_trait_change(otc, "a,n,l,l_items,d_items,st_items,cv,p,dv,ev,tp")
                o.observe(obs, "a, n, l.items, d.items, st.items, cv, tp")
        push_exception_handler(lambda *a: None, reraise_exceptions=False)
        oapi.push_exception_handler(lambda ev: None, reraise_exceptions=False)

        def done():
            oapi.pop_exception_handler()
            pop_exception_handler()
        self._adv_cleanup = done
        pool = [Sent(i) for i in range(6)]
        o = None      # (the registration loop variable must not hold an object)
        gc.collect()
        base = [sys.getrefcount(pool[j]) for j in range(6)]
        obase = [sys.getrefcount(objs[j]) for j in range(2)]
        # model: where each sentinel is held: dict (obj, slot) -> list of sentinel indices
        held = {}

        def hold(key, idxs):
            held[key] = list(idxs)

        def count(j):
            return sum(v.count(j) for v in held.values())
        changed = 0
        for i, op in enumerate(trace["ops"]):
            env.begin_op(i, op)
            k = op["k"]
            oi = op["o"] % 2
            o = objs[oi]
            j = op["s"] % 6
            s = pool[j]
            e = None
            with warnings.catch_warnings():
                warnings.simplefilter("ignore")
                if k == "set_any":
                    _, e = sut(setattr, o, "a", s)
                    if e is None:
                        hold((oi, "a"), [j])
                elif k == "set_cmp_none":
                    _, e = sut(setattr, o, "n", s)
                    if e is None:
                        hold((oi, "n"), [j])
                elif k == "set_int_bad":
                    _, e = sut(setattr, o, "i", s)
                elif k == "list_append":
                    _, e = sut(o.l.append, s)
                    if e is None:
                        held.setdefault((oi, "l"), []).append(j)
                elif k == "list_pop":
                    if held.get((oi, "l")):
                        _, e = sut(o.l.pop)
                        if e is None:
                            held[(oi, "l")].pop()
                elif k == "list_assign":
                    _, e = sut(setattr, o, "l", [s, s, pool[(j + 1) % 6]])
                    if e is None:
                        hold((oi, "l"), [j, j, (j + 1) % 6])
                elif k == "list_setslice":
                    cur = held.get((oi, "l"), [])
                    _, e = sut(o.l.__setitem__, slice(0, 1), [s])
                    if e is None:
                        held[(oi, "l")] = [j] + cur[1:]
                elif k == "list_bad":
                    _, e = sut(o.li.append, s)
                    _, e2 = sut(o.li.extend, [1, s])
                    _, e3 = sut(setattr, o, "li", [s])
                elif k == "dict_set":
                    _, e = sut(o.d.__setitem__, "k%d" % op["n"], s)
                    if e is None:
                        hold((oi, "d", op["n"]), [j])
                elif k == "dict_pop":
                    _, e = sut(o.d.pop, "k%d" % op["n"], None)
                    held.pop((oi, "d", op["n"]), None)
                elif k == "dict_update":
                    _, e = sut(o.d.update, {"k%d" % op["n"]: s, "u": s})
                    if e is None:
                        hold((oi, "d", op["n"]), [j])
                        hold((oi, "d", "u"), [j])
                elif k == "set_add":
                    _, e = sut(o.st.add, s)
                    if e is None and j not in held.get((oi, "st"), []):
                        held.setdefault((oi, "st"), []).append(j)
                elif k == "set_discard":
                    _, e = sut(o.st.discard, s)
                    if j in held.get((oi, "st"), []):
                        held[(oi, "st")].remove(j)
                elif k == "event":
                    _, e = sut(setattr, o, "ev", s)
                elif k == "prop_set":
                    _, e = sut(setattr, o, "p", s)
                    if e is None:
                        hold((oi, "_pv"), [j])
                    sut(getattr, o, "p")
                elif k == "deleg_set":
                    _, e = sut(setattr, o, "dv", s)
                    if e is None:
                        hold((1 - oi, "a2"), [j])
                    sut(getattr, o, "dv")
                elif k == "del_any":
                    _, e = sut(delattr, o, "a")
                    held.pop((oi, "a"), None)
                elif k == "read":
                    sut(getattr, o, "a")
                    sut(getattr, o, "l")
                    sut(getattr, o, "nope")
                    sut(getattr, o, "ev")
                elif k in ("validator_raises", "handler_raises"):
                    fired0 = env.fired["raise"]
                    _, e = sut(setattr, o, "cv" if k == "validator_raises" else "a", s)
                    if e is None:
                        hold((oi, "cv" if k == "validator_raises" else "a"), [j])
                elif k == "readonly":
                    _, e = sut(setattr, o, "ro", s)
                    if e is None:
                        hold((oi, "ro"), [j])
                elif k == "readonly_again":
                    _, e = sut(setattr, o, "ro", s)
                    if e is None:
                        hold((oi, "ro"), [j])
                elif k == "trait_set":
                    _, e = sut(o.trait_set, a=s, i="bad")
                    if (oi, "a") in held or e is not None or True:
                        # 'a' is assigned before 'i' fails (keyword order)
                        if o.__dict__.get("a") is s:
                            hold((oi, "a"), [j])
                elif k == "setq":
                    _, e = sut(o.trait_setq, n=s)
                    if e is None:
                        hold((oi, "n"), [j])
                elif k == "event_quiet":
                    # an event fired while notifications are off stores nothing
                    if op["n"] % 2:
                        _, e = sut(o.trait_setq, ev=s)
                    else:
                        _, e = sut(lambda: o.trait_set(trait_change_notify=False, ev=s))
                elif k == "quiet_mix":
                    # every kind of accessor under 'no notifications'
                    sut(lambda: o.trait_set(trait_change_notify=False, ev=s, p=s, dv=s, cv=s, a=s))
                    for slot, key in (("_pv", (oi, "_pv")), ("cv", (oi, "cv")), ("a", (oi, "a"))):
                        if o.__dict__.get(slot) is s:
                            hold(key, [j])
                    if objs[1 - oi].__dict__.get("a2") is s:
                        hold((1 - oi, "a2"), [j])
                elif k == "add_trait_set":
                    nm = "x%d" % op["n"]
                    sut(o.add_trait, nm, T.Any())
                    _, e = sut(setattr, o, nm, s)
                    if e is None:
                        hold((oi, nm), [j])
                    if op["n"] % 2:
                        sut(o.remove_trait, nm)
                        held.pop((oi, nm), None)
                elif k == "clone_drop":
                    c, e = sut(o.clone_traits)
                    del c
                elif k == "pickle_drop":
                    c, e = sut(lambda: pickle.loads(pickle.dumps(objs[oi].i)))
                    del c
                elif k == "default_read":
                    sut(getattr, o, "li")
                    sut(getattr, o, "st")
                    sut(getattr, o, "tp")
                elif k == "tuple_convert":
                    # an int where a Float is expected: the validator builds a new tuple
                    _, e = sut(setattr, o, "tc", (1 + op["n"], s, s))
                    if e is None:
                        hold((oi, "tc"), [j, j])
                    _, e2 = sut(setattr, o, "tc", ("x", s, s))
                elif k == "union_set":
                    _, e = sut(setattr, o, "un", s)
                    if e is None:
                        hold((oi, "un"), [j])
                elif k == "either_set":
                    _, e = sut(setattr, o, "ei", s)
                    if e is None:
                        hold((oi, "ei"), [j])
                    _, e2 = sut(setattr, o, "ei", 5)
                elif k == "instance_set":
                    _, e = sut(setattr, o, "ins", s)
                    if e is None:
                        hold((oi, "ins"), [j])
                    _, e2 = sut(setattr, o, "ins", "no")
                elif k == "numeric":
                    # fresh numbers and strings (exact float / int / str objects) offered to
                    # numeric validators: accepted, rejected, or handed on to the next
                    # alternative - the value's reference count moves by what is stored
                    nn = op["n"] + 4 * i
                    fresh = [float(1000 + nn) + 0.25, 0.25 + nn / 1000.0, 10 ** 12 + nn,
                             3 + nn % 5 + 0, "s%d" % nn, -(float(nn) + 2.5)]
                    for tname in ("rg", "ri", "er", "ef", "eir", "eii", "efs", "eis", "trg"):
                        for fv in fresh:
                            rc0 = sys.getrefcount(fv)
                            if rc0 > (1 << 28):
                                continue        # an immortal object (small int): no count
                            val = (fv, None) if tname == "trg" else fv
                            sut(setattr, o, tname, val)
                            cur = o.__dict__.get(tname)
                            if tname == "trg":
                                stored = isinstance(cur, tuple) and cur[0] is fv
                            else:
                                stored = cur is fv
                            val = cur = None
                            got = sys.getrefcount(fv) - rc0
                            env.oracle_evals += 1
                            if got != (1 if stored else 0):
                                raise Violation("C18.refcount",
                                                "after %s = %s(...): the value passed in is "
                                                "referenced %d times more than before, the "
                                                "resulting state holds it %d times (%s)"
                                                % (tname, type(fv).__name__, got,
                                                   1 if stored else 0,
                                                   "leak" if got > (1 if stored else 0)
                                                   else "missing reference"), i)
                            sut(delattr, o, tname)
                            if sys.getrefcount(fv) != rc0:
                                raise Violation("C18.refcount",
                                                "after %s = %s(...) and del: the value is still "
                                                "referenced %d times more than before"
                                                % (tname, type(fv).__name__,
                                                   sys.getrefcount(fv) - rc0), i)
                    fresh = fv = None
                elif k == "tuple_set":
                    _, e = sut(setattr, o, "tp", (s, 1))
                    if e is None:
                        hold((oi, "tp"), [j])
                    _, e2 = sut(setattr, o, "tp", (s, "x"))
            del s, e, o
            _ = e2 = e3 = c = None      # (results of the calls may be the sentinel itself)
            env.end_op()
            gc.collect()
            # ---- oracle: reference counts equal the holders the model knows about
            for q in range(6):
                got = sys.getrefcount(pool[q]) - base[q]
                want = count(q)
                env.oracle_evals += 1
                if got != want:
                    raise Violation("C18.refcount",
                                    "after %s: the value passed in is referenced %d times more "
                                    "than before, the resulting state holds it %d times (%s)"
                                    % (k, got, want, "leak" if got > want else "missing reference"),
                                    i)
            for q in range(2):
                got = sys.getrefcount(objs[q]) - obase[q]
                # the objects reference each other through 'partner' only (counted in obase)
                if got != 0:
                    raise Violation("C18.refcount-object",
                                    "after %s: the object's own reference count moved by %d"
                                    % (k, got), i)
            changed += 1
            env.token(k, tuple(count(q) for q in range(6)))
            env.cover("ref", k)
        env.nontrivial = changed > 0
        done()
        self._adv_cleanup = None

    # ================================================================== closed cycles
    CYCLES = ["assign_del", "observe_unobserve", "otc_add_remove", "list_grow_shrink",
              "add_remove_trait", "ctrait_pickle", "sync_unsync", "object_create_drop",
              "failed_assign", "default_materialise_drop", "clone_drop", "property_cycle",
              "dict_set_pop", "handler_raises",
              # failing (and succeeding) walks of a delegation chain
              "base_trait_none_delegate", "base_trait_unfetchable", "base_trait_cycle",
              "base_trait_ok", "delegate_read_none", "delegate_write_none",
              "delegate_read_cycle", "trait_lookup_prefix"]

    def gen_cycle(self, seed):
        r = stream(seed, "cycle")
        return {"config": {}, "ops": [{"k": "cycle", "which": r.choice(self.CYCLES), "n": 400}
                                      for _ in range(r.choice([1, 2, 3]))]}

    def run_cycle(self, trace, env):
        import traits.api as T
        from traits.api import push_exception_handler, pop_exception_handler
        from traits.observation import api as oapi

        class Z(T.HasTraits):
            a = T.Any()
            i = T.Int()
            l = T.List(T.Any())     # noqa: E741
            d = T.Dict(T.Str, T.Any())
            p = T.Property(T.Int, observe="i")
            other = T.Instance(T.HasTraits)

            @T.cached_property
            def _get_p(self):
                return self.i + 1
        armed = []

        class Boom(T.HasTraits):
            """Its 'target' attribute cannot be fetched."""
            target = T.Property()
            v = T.DelegatesTo("target")

            def _get_target(self):
                if armed:
                    raise RuntimeError("no target")
                return None

        class D(T.HasTraits):
            peer = T.Instance(T.HasTraits)
            v = T.DelegatesTo("peer")
            w = T.DelegatesTo("peer", prefix="i")
            pre_ = T.Int(4)

        push_exception_handler(lambda *a: None, reraise_exceptions=False)
        oapi.push_exception_handler(lambda ev: None, reraise_exceptions=False)

        def done():
            oapi.pop_exception_handler()
            pop_exception_handler()
        self._adv_cleanup = done
        z, y = Z(), Z()
        d_none = D()                      # peer is None
        d1, d2 = D(), D()
        d1.peer, d2.peer = d2, d1         # v delegates in a circle
        d_ok = D(peer=z)                  # w -> z.i
        boom = Boom()
        armed.append(1)
        # long-lived objects whose reference counts a closed cycle must leave alone
        watch = [z, y, d_none, d1, d2, d_ok, boom, Z, D, Boom]
        for cls in (Z, D, Boom):
            watch.extend(cls.__dict__["__class_traits__"].values())
            watch.extend(cls.__dict__["__class_traits__"].keys())

        def swallow(f, *a):
            try:
                f(*a)
            except Exception:      # noqa: BLE001 - the failure is the point
                pass

        def h(event):
            pass

        def h4(obj, name, old, new):
            pass

        def bad(obj, name, old, new):
            raise ValueError("x")

        def one(which, n):
            if which == "assign_del":
                z.a = object()
                del z.a
            elif which == "observe_unobserve":
                z.observe(h, "a, l.items, other.a")
                z.observe(h, "a, l.items, other.a", remove=True)
            elif which == "otc_add_remove":
                z.on_trait_change(h4, "a")
                z.on_trait_change(h4, "other.a")
                z.on_trait_change(h4, "a", remove=True)
                z.on_trait_change(h4, "other.a", remove=True)
            elif which == "list_grow_shrink":
                z.l.append(object())
                z.l.extend([1, 2])
                del z.l[:]
            elif which == "add_remove_trait":
                z.add_trait("extra", T.Int(3))
                z.extra = n
                z.remove_trait("extra")
            elif which == "ctrait_pickle":
                pickle.loads(pickle.dumps(z.trait("i")))
                copy.deepcopy(z.trait("l"))
            elif which == "sync_unsync":
                z.sync_trait("i", y)
                z.i = n
                z.sync_trait("i", y, remove=True)
            elif which == "object_create_drop":
                t = Z(a=1, i=2)
                t.l.append(t)
                t.other = z
                del t
            elif which == "failed_assign":
                try:
                    z.i = "bad"
                except T.TraitError:
                    pass
                try:
                    z.l = 5
                except T.TraitError:
                    pass
            elif which == "default_materialise_drop":
                t = Z()
                t.l, t.d, t.p
                del t
            elif which == "clone_drop":
                c = z.clone_traits()
                del c
            elif which == "property_cycle":
                z.i = n
                z.p
            elif which == "dict_set_pop":
                z.d["k"] = object()
                z.d.pop("k")
            elif which == "handler_raises":
                z.on_trait_change(bad, "i")
                z.i = n + 1000
                z.on_trait_change(bad, "i", remove=True)
            elif which == "base_trait_none_delegate":
                swallow(d_none.base_trait, "v")
            elif which == "base_trait_unfetchable":
                swallow(boom.base_trait, "v")
            elif which == "base_trait_cycle":
                swallow(d1.base_trait, "v")
            elif which == "base_trait_ok":
                d_ok.base_trait("w")
                d_ok.base_trait("pre_x")
            elif which == "delegate_read_none":
                swallow(getattr, d_none, "v")
            elif which == "delegate_write_none":
                swallow(setattr, d_none, "v", n)
            elif which == "delegate_read_cycle":
                swallow(getattr, d1, "v")
                swallow(setattr, d1, "v", n)
            elif which == "trait_lookup_prefix":
                d_ok.trait("pre_%d" % (n % 7))
                swallow(d_ok.trait, "nope", True)
        for i, op in enumerate(trace["ops"]):
            env.begin_op(i, op)
            which = op["which"]
            n = op["n"]
            for q in range(40):            # warm-up (caches, free lists, instance traits)
                one(which, q)
            gc.collect()
            b0 = sys.getallocatedblocks()
            rc0 = [sys.getrefcount(x) for x in watch]
            for q in range(n):
                one(which, q + 40)
            gc.collect()
            b1 = sys.getallocatedblocks()
            rc1 = [sys.getrefcount(x) for x in watch]
            for q in range(n):
                one(which, q + 1000)
            gc.collect()
            b2 = sys.getallocatedblocks()
            rc2 = [sys.getrefcount(x) for x in watch]
            # reference-neutral: a closed cycle repeated n times must not move the
            # reference count of a long-lived object by about n, twice in a row
            half = n // 2
            for x, c0, c1, c2 in zip(watch, rc0, rc1, rc2):
                if (c1 - c0 >= half and c2 - c1 >= half) or (c0 - c1 >= half and c1 - c2 >= half):
                    what = x if isinstance(x, (str, type)) else type(x).__name__
                    raise Violation("C18.refcount-drift",
                                    "closed cycle '%s' moves the reference count of a long-lived "
                                    "object (%s) by %+d and %+d in two batches of %d repetitions"
                                    % (which, what, c1 - c0, c2 - c1, n), i)
            for q in range(n):
                one(which, q + 2000)
            gc.collect()
            b3 = sys.getallocatedblocks()
            env.end_op()
            env.oracle_evals += 1
            # a leak of one block per cycle shows as >= n more blocks in EVERY batch;
            # allocator noise (dict resizes, free lists) is a few hundred blocks in
            # total and does not grow batch after batch
            lim = (9 * n) // 10
            if b0 and (b1 - b0) >= lim and (b2 - b1) >= lim and (b3 - b2) >= lim:
                raise Violation("C18.leak",
                                "closed cycle '%s' keeps allocating: %+d, %+d, %+d blocks in three "
                                "batches of %d repetitions (no plateau)"
                                % (which, b1 - b0, b2 - b1, b3 - b2, n), i)
            env.token(which)
            env.cover("cycle", which)
        env.nontrivial = True
        done()
        self._adv_cleanup = None

    def coverage_report(self, cells):
        return {"measure": "(sub-workload, detail) cells", "cells_hit": len(cells),
                "cells": sorted(map(repr, cells))[:80]}


PROP = Prop()
