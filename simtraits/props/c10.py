"""C10 - defaults are per-instance, computed once, silent; instances are isolated.

World: one generated class A (and a subclass B overriding some defaults) per
run with every default kind; 2-5 instances created at generated moments.
Handlers of all mechanisms are callback points that record which object they
were called for.  Environment: creation order relative to sibling history, gc
and drop of siblings, pickle restart of one instance.
"""
import gc
import pickle
import sys
import types
import warnings

from ..core import Violation, HarnessError, InjectedFault, stream, sut, exc_name
from ..core import deep

ID = "C10"
UNSET = "<unset>"

NAMES = ["c", "al", "ad", "l", "d", "s", "fac", "dyn", "t", "u", "inst", "ts", "td", "us", "tn",
         "ps", "cn", "sh", "kid", "aod", "als", "mp"]

DYN = types.ModuleType("simtraits.dyn")
sys.modules["simtraits.dyn"] = DYN


class ListSub(list):
    pass


class KidMarker:
    """Stands for 'an instance of the Kid class' in declared defaults."""


def plain(v):
    """Structural snapshot of a value (container wrappers removed)."""
    if isinstance(v, KidMarker) or type(v).__name__ == "Kid":
        return ("obj", "Kid")
    if isinstance(v, tuple):
        return ("tuple",) + tuple(plain(x) for x in v)
    if isinstance(v, list):
        return ["list"] + [plain(x) for x in v]
    if isinstance(v, dict):
        return {"dict": sorted((repr(a), plain(b)) for a, b in v.items())}
    if isinstance(v, (set, frozenset)):
        return {"set": sorted(plain(x) for x in v)}
    return v


def declared_default(cls_name, name):
    """What a first read must return (structurally)."""
    d = {
        "c": 3, "al": [1, 2], "ad": {"k": 1}, "l": [1, 2, 3], "d": {"a": 1}, "s": {1, 2},
        "fac": {"made": True}, "dyn": ["dyn", cls_name], "t": ([], 0), "u": [], "inst": [7],
        "ts": (set(), 0), "td": ({}, 0), "us": set(), "tn": ("", (set(), 0)),
        "ps": ["ps", cls_name], "cn": [5, 6], "sh": 7, "kid": KidMarker(),
        "aod": {"k": 1}, "als": [1, 2], "mp": "a",
    }
    if cls_name == "B":
        d["l"] = [9]
        d["c"] = 4
        d["al"] = [8]
    return plain(d[name])


class Prop:
    ID = ID
    LEVEL = "exploration"
    CHUNK = 40
    GC_EVERY = 5
    RUN_TIMEOUT = 10.0
    DIGEST_EVERY = 20
    RULE = ("seeded random histories (5-40 ops) on 2-5 instances of a generated class and its "
            "subclass with sixteen default kinds (constant, list/dict copy, List/Dict/Set objects, "
            "factory, _name_default method, Tuple and Union with List/Set/Dict members incl. a "
            "nested Tuple, Instance with args, subclass-overridden defaults, and a default method "
            "on a trait type whose post_setattr hook is a fault point: the first read then fails "
            "after the default was computed): reads, re-reads, in-place mutation of "
            "default containers (also nested inside the Tuple), valid and invalid assignments, "
            "registering / removing on_trait_change and observe handlers (copy-on-write instance "
            "traits; every handler is tagged with the instance it was registered on), add_trait of "
            "Int / List (with its _items trait) / the class's own trait definition object and "
            "remove_trait, creation of new instances at generated moments, "
            "gc, drop of siblings, pickle restart of an instance; after every op all other "
            "instances, the class and a fresh instance are inspected; non-trivial = some default "
            "container was mutated or an instance trait was created before a sibling or a fresh "
            "instance was inspected; distinct = distinct abstract traces")
    ASSUMPTIONS = ["defaults are compared structurally; identity is asserted for re-reads and "
                   "non-sharing between instances"]

    def gen(self, seed):
        c = stream(seed, "config")
        r = stream(seed, "ops")
        er = stream(seed, "env")
        ninit = c.randint(1, 3)
        init = [c.choice(["A", "A", "B"]) for _ in range(ninit)]
        nops = deep(c, [5, 10, 16, 24, 40], [60, 90])
        ctr = [100]
        ops = []
        for _ in range(nops):
            ctr[0] += 1
            x = r.random()
            o = r.randrange(6)
            name = r.choice(NAMES)
            if x < 0.08:
                op = {"k": "new", "cls": r.choice(["A", "A", "B"])}
            elif x < 0.30:
                op = {"k": "read", "o": o, "name": name}
                if r.random() < 0.15:
                    # a first read that fails after the default has been computed: the
                    # trait's post_setattr hook (a user callback) raises
                    op["name"] = "ps"
                    if er.random() < 0.7:
                        op["env"] = [{"at": "post_setattr:ps", "nth": 1, "do": "raise",
                                      "exc": er.choice(["ValueError", "RuntimeError",
                                                        "AttributeError", "TraitError"])}]
            elif x < 0.48:
                op = {"k": "mutate", "o": o, "name": name, "v": ctr[0]}
            elif x < 0.64:
                op = {"k": "assign", "o": o, "name": name, "v": ctr[0],
                      "bad": r.random() < 0.15, "alt": r.random() < 0.5}
            elif x < 0.76:
                op = {"k": "reg", "o": o, "name": name, "mech": r.choice(["otc", "obs"]),
                      "slot": r.randrange(2)}
            elif x < 0.82:
                op = {"k": "unreg", "o": o, "name": name, "mech": r.choice(["otc", "obs"]),
                      "slot": r.randrange(2)}
            elif x < 0.88:
                op = {"k": r.choice(["add_trait", "add_trait", "remove_trait"]), "o": o,
                      "n": r.randrange(3),
                      "what": r.choice(["int", "int", "list", "list", "existing"])}
            elif x < 0.90:
                # a name that exists only through the class's wildcard definition 'v_': the
                # first use of it in the whole class may be a handler registration
                op = {"k": r.choice(["wild_reg", "wild_set", "wild_set"]), "o": o, "v": ctr[0]}
            elif x < 0.91:
                op = {"k": "gc"}
            elif x < 0.94:
                op = {"k": "drop", "o": o}
            elif x < 0.955:
                op = {"k": "restart", "o": o, "proto": r.choice([2, 4, 5])}
            elif x < 0.97:
                # a deep clone of an instance joins the population: one more sibling
                op = {"k": "clone", "o": o, "how": r.choice(["clone", "deepcopy"])}
            else:
                op = {"k": "read_extra", "o": o, "n": r.randrange(3)}
            ops.append(op)
        return {"prop": ID, "seed": seed, "config": {"init": init}, "ops": ops}

    # ------------------------------------------------------------------ world
    def build(self, env, calls, hlog):
        from traits.api import (HasTraits, Int, Any, List, Dict, Set, Str, Tuple, Union,
                                Instance, observe, ComparisonMode)

        def factory():
            env.point("default:factory")
            calls["factory"] = calls.get("factory", 0) + 1
            return {"made": True}

        def mk_ps(cls_name):
            def _ps_default(self):
                env.point("default:ps")
                key = (self.__dict__.get("_sim_serial"), "ps")
                calls[key] = calls.get(key, 0) + 1
                return ["ps", cls_name]
            return _ps_default

        from traits.api import TraitType

        class PostSet(TraitType):
            """Accepts anything; its post_setattr hook is a callback point (it also
            runs when the default is stored by a first read)."""
            def validate(self, object, name, value):
                return value

            def post_setattr(self, object, name, value):
                env.point("post_setattr:ps")

        def _mp_default(self):
            env.point("default:mp")
            key = (self.__dict__.get("_sim_serial"), "mp")
            calls[key] = calls.get(key, 0) + 1
            return "a"

        def _mp__changed(self, old, new):
            # a listener on the shadow value of the mapped trait
            hlog.append(("static", id(self), "mp_"))

        def mk_dyn(cls_name):
            def _dyn_default(self):
                env.point("default:dyn")
                # (a per-object serial, not id(): addresses are reused after a drop)
                key = (self.__dict__.get("_sim_serial"), "dyn")
                calls[key] = calls.get(key, 0) + 1
                return ["dyn", cls_name]
            return _dyn_default

        def _c_changed(self, old, new):
            env.point("h:static")
            hlog.append(("static", id(self), "c"))

        def _anytrait_changed(self, name, old, new):
            if name in NAMES or name.startswith("extra"):
                env.point("h:any")
                hlog.append(("any", id(self), name))

        def _dec(self, event):
            env.point("h:dec")
            hlog.append(("dec", id(event.object), event.name))
        # a child object created per instance, with a '_<x>_changed_for_<trait>' listener
        Kid = type(HasTraits)("Kid", (HasTraits,), {"q": Int(), "__module__": "simtraits.dyn"})
        DYN.Kid = Kid

        def _q_changed_for_kid(self, obj, name, old, new):
            hlog.append(("kidq", id(self), "kid"))
        shared_ct = Int(7).as_ctrait()

        def _sh_default_other(self):
            return 99

        def _sh_changed_other(self, old, new):
            # (tagged with owner -1: a call during an op on an A/B instance is foreign)
            hlog.append(("static-other", id(self), "sh", -1))
        with warnings.catch_warnings():
            warnings.simplefilter("ignore", DeprecationWarning)
            ns = {
                "c": Int(3), "al": Any([1, 2]), "ad": Any({"k": 1}), "l": List(Int, [1, 2, 3]),
                "d": Dict(Str, Int, {"a": 1}), "s": Set(Int, {1, 2}),
                "fac": Any(factory=factory), "dyn": Any(),
                "t": Tuple(List(Int), Int), "u": Union(List(Int), Int),
                "ts": Tuple(Set(Int), Int), "td": Tuple(Dict(Str, Int), Int),
                "us": Union(Set(Int), None), "tn": Tuple(Str, Tuple(Set(Int), Int)),
                "inst": Instance(list, ([7],)),
                "ps": PostSet(), "_ps_default": mk_ps("A"),
                # never compared: every assignment is a change - a first read is none
                "cn": Any([5, 6], comparison_mode=ComparisonMode.none),
                # a ready-made trait definition object that another class declares too
                "sh": shared_ct,
                "kid": Instance(Kid, ()), "_q_changed_for_kid": _q_changed_for_kid,
                # list / dict defaults that are instances of SUBCLASSES of list / dict
                "aod": Any(__import__("collections").OrderedDict([("k", 1)])),
                "als": Any(ListSub([1, 2])),
                # a mapped trait with a default method and a listener on its shadow
                "mp": __import__("traits.api").api.Map({"a": 1, "b": 2}),
                "_mp_default": _mp_default, "_mp__changed": _mp__changed,
                "v_": Int(7),
                "_dyn_default": mk_dyn("A"), "_c_changed": _c_changed,
                "_anytrait_changed": _anytrait_changed,
                "_dec": observe("c, l, d, s, al, dyn, cn, sh")(_dec),
                "__module__": "simtraits.dyn",
            }
            A = type(HasTraits)("A", (HasTraits,), ns)
            B = type(HasTraits)("B", (A,), {"l": List(Int, [9]), "c": Int(4), "al": Any([8]),
                                            "_dyn_default": mk_dyn("B"),
                                            "_ps_default": mk_ps("B"),
                                            "__module__": "simtraits.dyn"})
            # an unrelated class, created later, declares the same definition object and
            # attaches its own default method and static handler to ITS copy of it
            Other = type(HasTraits)("Other", (HasTraits,), {
                "sh": shared_ct, "_sh_default": _sh_default_other,
                "_sh_changed": _sh_changed_other, "__module__": "simtraits.dyn"})
            other = Other()
            if other.sh != 99:
                raise Violation("C10.wrong-default", "Other().sh reads %r, its default method "
                                "returns 99" % (other.sh,), None)
            other.sh = 5
            del hlog[:]
        A.__qualname__, B.__qualname__ = "A", "B"
        DYN.A, DYN.B = A, B
        return {"A": A, "B": B}

    @staticmethod
    def class_fingerprint(classes):
        out = {}
        for cn, cls in classes.items():
            ct = cls.__dict__["__class_traits__"]
            out[cn] = (
                {n: len(ct[n]._notifiers(False) or []) for n in NAMES},
                sorted(cls.__dict__["__base_traits__"].keys()),
                # (the class trait dict itself also caches resolved wildcard traits
                # for names that were merely looked up; that is not a definition)
            )
        return out

    # ------------------------------------------------------------------ execution
    def execute(self, trace, env):
        from traits.api import Int
        from traits.trait_errors import TraitError
        calls = {}
        hlog = []
        classes = self.build(env, calls, hlog)
        fp0 = self.class_fingerprint(classes)
        insts = []       # dicts: obj, cls, model {name: plain}, mat set, extras set, handlers
        stats = {"mutated": 0, "itraits": 0, "inspected": 0}

        serial = [0]

        def new(cn):
            del hlog[:]
            o, e = sut(classes[cn])
            if e is not None:
                raise Violation("C10.construct", "%s() raised %r" % (cn, e), None)
            if hlog:
                raise Violation("C10.construct-notified", "constructing %s() called %r"
                                % (cn, (hlog[0][0], hlog[0][2])), None)
            serial[0] += 1
            o.__dict__["_sim_serial"] = serial[0]
            insts.append({"obj": o, "cls": cn, "model": {}, "ident": {}, "extras": set(),
                          "handlers": {}})
        for cn in trace["config"]["init"]:
            new(cn)
        for i, op in enumerate(trace["ops"]):
            env.begin_op(i, op)
            k = op["k"]
            del hlog[:]
            calls0 = dict(calls)
            target = None
            if k == "new":
                if len(insts) < 5:
                    new(op["cls"])
            elif k == "gc":
                gc.collect()
            elif not insts:
                pass
            else:
                target = insts[op["o"] % len(insts)]
                o, m = target["obj"], target["model"]
                cn = target["cls"]
                if k == "drop":
                    if len(insts) > 1:
                        insts.remove(target)
                        target = None
                        del o
                elif k == "restart":
                    new_o, e = sut(lambda: pickle.loads(pickle.dumps(o, op["proto"])))
                    if e is not None:
                        raise Violation("C10.restart", "pickle round trip raised %r" % (e,), i)
                    # pickling reads every trait: all defaults are materialised on the
                    # original by now, and the copy holds equal values
                    for name in NAMES:
                        if name not in m:
                            m[name] = declared_default(cn, name)
                    new_o.__dict__["_sim_serial"] = o.__dict__["_sim_serial"]
                    target["obj"] = o = new_o
                    target["ident"] = {}
                    target["handlers"] = {}
                    for n in list(target["extras"]):
                        if n not in o.trait_names():
                            target["extras"].discard(n)
                    del hlog[:]
                    calls0 = dict(calls)
                elif k == "clone":
                    if len(insts) < 5:
                        import copy as _copy
                        if op["how"] == "clone":
                            new_o, e = sut(o.clone_traits, copy="deep")
                        else:
                            new_o, e = sut(lambda: o.clone_traits(copy="deep", memo={}))
                        if e is not None:
                            raise Violation("C10.clone", "clone_traits(copy='deep') raised %r"
                                            % (e,), i)
                        # cloning reads every trait: all defaults are materialised on the
                        # original by now, and the clone holds equal values of its own
                        for name in NAMES:
                            if name not in m:
                                m[name] = declared_default(cn, name)
                        serial[0] += 1
                        new_o.__dict__["_sim_serial"] = serial[0]
                        insts.append({"obj": new_o, "cls": cn, "model": _copy.deepcopy(m),
                                      "ident": {}, "extras": set(), "handlers": {},
                                      # values of traits the original added with add_trait
                                      # arrive as plain attributes (not as traits)
                                      "extras_plain": set(target["extras"])
                                      | set(target.get("extras_plain", ()))})
                        # (handlers and the instance traits themselves are the original's
                        # own business: the clone has none of them)
                        del hlog[:]
                        calls0 = dict(calls)
                        target = None
                elif k == "read":
                    name = op["name"]
                    fresh = name not in m
                    v, e = sut(getattr, o, name)
                    if isinstance(e, InjectedFault) and fresh and name == "ps":
                        # the hook failed after the default had been computed: the read
                        # fails, but the default is computed once all the same - the next
                        # read returns it without running the default method again
                        stats["failed_first_reads"] = stats.get("failed_first_reads", 0) + 1
                        del hlog[:]
                        v, e = sut(getattr, o, name)
                    if e is not None:
                        raise Violation("C10.read", "reading %s raised %r" % (name, e), i)
                    env.oracle_evals += 1
                    if fresh:
                        want = declared_default(cn, name)
                        if plain(v) != want:
                            raise Violation("C10.wrong-default",
                                            "first read of %s.%s gave %r, declared default is %r"
                                            % (cn, name, plain(v), want), i)
                        if hlog:
                            raise Violation("C10.default-notified",
                                            "first read of %s.%s reached handler %r"
                                            % (cn, name, (hlog[0][0], hlog[0][2])), i)
                        m[name] = plain(v)
                    v2, _ = sut(getattr, o, name)
                    if v2 is not v:
                        raise Violation("C10.reread-identity",
                                        "re-reading %s.%s gave another object" % (cn, name), i)
                    target["ident"][name] = v
                    self.check_counts(calls, calls0, o, name, fresh, cn, i)
                elif k == "mutate":
                    name = op["name"]
                    fresh = name not in m
                    v, e = sut(getattr, o, name)
                    if e is not None:
                        raise Violation("C10.read", "reading %s raised %r" % (name, e), i)
                    if fresh:
                        m[name] = plain(v)
                        if hlog:
                            raise Violation("C10.default-notified",
                                            "first read of %s.%s reached handler %r"
                                            % (cn, name, (hlog[0][0], hlog[0][2])), i)
                    n = op["v"]
                    tgt = first_mutable(v)
                    if isinstance(tgt, list):
                        _, e = sut(tgt.append, n)
                    elif isinstance(tgt, dict):
                        _, e = sut(tgt.__setitem__, "z%d" % n, n)
                    elif isinstance(tgt, set):
                        _, e = sut(tgt.add, n)
                    else:
                        e = None
                    if e is not None:
                        raise Violation("C10.mutate", "mutating the value of %s raised %r"
                                        % (name, e), i)
                    m[name] = plain(v)
                    stats["mutated"] += 1
                elif k == "assign":
                    name = op["name"]
                    val, valid = self.value_for(name, op)
                    _, e = sut(setattr, o, name, val)
                    if valid:
                        if e is not None:
                            raise Violation("C10.assign", "%s = %r raised %r" % (name, val, e), i)
                        m[name] = plain(getattr(o, name))
                        target["ident"].pop(name, None)
                    elif not isinstance(e, TraitError):
                        raise Violation("C10.assign", "%s = %r: expected TraitError, got %r"
                                        % (name, val, e), i)
                    elif name not in m and name in o.__dict__:
                        m[name] = plain(o.__dict__[name])
                elif k in ("reg", "unreg"):
                    name = op["name"]
                    if target["extras"] and op["slot"] == 1 and op["mech"] == "otc":
                        # a handler on an added instance trait (and its items trait)
                        ex = sorted(target["extras"])[0]
                        name = ex + ("_items" if target.get("extra_kind", {}).get(ex) == "list"
                                     else "")
                    key = (name, op["mech"], op["slot"])
                    have = key in target["handlers"]
                    if (k == "reg") != have:
                        if k == "reg":
                            h = mk_dyn_handler(op["mech"], hlog, env,
                                               o.__dict__["_sim_serial"])
                            target["handlers"][key] = h
                        else:
                            h = target["handlers"].pop(key)
                        if op["mech"] == "otc":
                            _, e = sut(o.on_trait_change, h, name, remove=(k == "unreg"))
                        else:
                            _, e = sut(o.observe, h, name, remove=(k == "unreg"))
                        if e is not None:
                            raise Violation("C10.registration", "%s %s handler on %s raised %r"
                                            % (k, op["mech"], name, e), i)
                        stats["itraits"] += 1
                elif k == "add_trait":
                    n = "extra%d" % op["n"]
                    # (not over a plain attribute that a clone inherited under this name:
                    # add_trait leaves a value that is stored already where it is)
                    if n not in target["extras"] and n not in target.get("extras_plain", ()):
                        what = op.get("what", "int")
                        if what == "list":
                            # a container trait: add_trait also adds <name>_items
                            from traits.api import List as _List
                            tdef = _List(Int, [5])
                        elif what == "existing":
                            # an existing trait definition object: the class's own 'c'
                            # (o.trait("c") would be this instance's copy-on-write clone)
                            tdef = classes[cn].class_traits()["c"]
                        else:
                            tdef = Int(5)
                        target["extra_kind"] = dict(target.get("extra_kind", {}), **{n: what})
                        _, e = sut(o.add_trait, n, tdef)
                        if e is not None:
                            raise Violation("C10.add_trait", "add_trait raised %r" % (e,), i)
                        target["extras"].add(n)
                        stats["itraits"] += 1
                elif k == "remove_trait":
                    n = "extra%d" % op["n"]
                    if n in target["extras"]:
                        _, e = sut(o.remove_trait, n)
                        if e is not None:
                            raise Violation("C10.remove_trait", "remove_trait raised %r" % (e,), i)
                        target["extras"].discard(n)
                elif k == "wild_reg":
                    key = ("v_late", "otc", 9)
                    if key not in target["handlers"]:
                        h = mk_dyn_handler("otc", hlog, env, o.__dict__["_sim_serial"])
                        target["handlers"][key] = h
                        _, e = sut(o.on_trait_change, h, "v_late")
                        if e is not None:
                            raise Violation("C10.registration", "handler on a wildcard name "
                                            "raised %r" % (e,), i)
                        stats["itraits"] += 1
                elif k == "wild_set":
                    _, e = sut(setattr, o, "v_late", op["v"])
                    got, e2 = sut(getattr, o, "v_late")
                    if e is not None or e2 is not None or got != op["v"]:
                        raise Violation("C10.assign", "v_late = %r: %r / reads %r (%r)"
                                        % (op["v"], e, got, e2), i)
                    target["wild"] = op["v"]
                elif k == "read_extra" and ("extra%d" % op["n"]) in target.get("extras_plain", ()) \
                        and ("extra%d" % op["n"]) not in target["extras"]:
                    # a plain attribute on a clone: assigning it is nobody else's business
                    sut(setattr, o, "extra%d" % op["n"], 6)
                elif k == "read_extra":
                    n = "extra%d" % op["n"]
                    v, e = sut(getattr, o, n)
                    if n in target["extras"]:
                        what = target.get("extra_kind", {}).get(n, "int")
                        want = {"int": 5, "list": [5], "existing": 3 if cn == "A" else 4}[what]
                        if what == "list" and e is None:
                            # mutate it (reaches <name>_items handlers of THIS instance only)
                            sut(v.append, 6)
                            sut(v.pop)
                        if e is not None or (list(v) if isinstance(v, list) else v) != want:
                            raise Violation("C10.add_trait", "instance trait %s reads %r / %r"
                                            % (n, v, e), i)
                    elif not isinstance(e, AttributeError):
                        raise Violation("C10.add_trait-leaked",
                                        "%s is readable (%r) on an instance that never added it"
                                        % (n, v), i)
            env.end_op()
            # ---- handler calls only for the instance that changed
            for rec in hlog:
                if target is None or rec[1] != id(target["obj"]):
                    raise Violation("C10.foreign-handler-call",
                                    "%s on one instance called handler %r of another object"
                                    % (k, (rec[0], rec[2])), i)
                if len(rec) > 3 and rec[3] != target["obj"].__dict__["_sim_serial"]:
                    raise Violation("C10.foreign-handler-call",
                                    "%s on instance #%d called a handler that was registered on "
                                    "instance #%d only: %r"
                                    % (k, target["obj"].__dict__["_sim_serial"], rec[3], (rec[0], rec[2])),
                                    i)
            # ---- default methods run at most once per (instance, attribute)
            for key, n in calls.items():
                if isinstance(key, tuple) and key[0] is not None and n > 1:
                    raise Violation("C10.default-recomputed",
                                    "_%s_default ran %d times on one instance" % (key[1], n), i)
            # ---- every instance still holds what its own model says
            self.inspect(insts, classes, fp0, env, stats, i, hlog)
            env.token(k, op.get("name"), target["cls"] if target else None)
            env.cover(k, op.get("name"))
        env.nontrivial = stats["inspected"] > 0 and (stats["mutated"] > 0 or stats["itraits"] > 0)

    @staticmethod
    def check_counts(calls, calls0, o, name, fresh, cn, step):
        if name in ("dyn", "ps", "mp"):
            key = (o.__dict__.get("_sim_serial"), name)
            d = calls.get(key, 0) - calls0.get(key, 0)
            if fresh and d != 1:
                raise Violation("C10.default-count", "first read of %s ran _%s_default %d times"
                                % (name, name, d), step)
            if not fresh and d != 0:
                raise Violation("C10.default-recomputed", "re-read of %s ran _%s_default again"
                                % (name, name), step)
        if name == "fac":
            d = calls.get("factory", 0) - calls0.get("factory", 0)
            if (fresh and d != 1) or (not fresh and d != 0):
                raise Violation("C10.default-count", "reading fac (%s) ran the factory %d times"
                                % ("first read" if fresh else "re-read", d), step)

    @staticmethod
    def value_for(name, op):
        n = op["v"]
        bad = op.get("bad")
        if name in ("c", "sh"):
            return ("x", False) if bad else (n, True)
        if name == "cn":
            return ([n] if op.get("alt") else {"q": n}), True
        if name == "kid":
            return (5, False) if bad else (DYN.Kid(q=n), True)
        if name == "mp":
            return ("zz", False) if bad else (("b" if op.get("alt") else "a"), True)
        if name in ("al", "ad", "fac", "dyn", "ps", "aod", "als"):
            return ([n] if op.get("alt") else {"q": n}), True
        if name == "l":
            return (["x"], False) if bad else ([n, n + 1], True)
        if name == "d":
            return ({1: 1}, False) if bad else ({"q": n}, True)
        if name == "s":
            return ({"x"}, False) if bad else ({n}, True)
        if name == "t":
            return ((1, 2, 3), False) if bad else (([n], n), True)
        if name == "ts":
            return (({"x"}, 1), False) if bad else (({n}, n), True)
        if name == "td":
            return (({1: 1}, 1), False) if bad else (({"q": n}, n), True)
        if name == "us":
            return ("x", False) if bad else (({n} if op.get("alt") else None), True)
        if name == "tn":
            return ((1, 2), False) if bad else (("s", ({n}, n)), True)
        if name == "u":
            return ("x", False) if bad else (([n] if op.get("alt") else n), True)
        if name == "inst":
            return (5, False) if bad else ([n], True)
        raise AssertionError(name)

    def inspect(self, insts, classes, fp0, env, stats, step, hlog):
        # instances against their models; no sharing of mutable values
        seen = {}
        for rec in insts:
            o, m = rec["obj"], rec["model"]
            for name, want in m.items():
                cur = o.__dict__.get(name, UNSET)
                env.oracle_evals += 1
                if cur is UNSET or plain(cur) != want:
                    raise Violation("C10.instance-state",
                                    "a %s instance holds %s=%r, its own history says %r (changed by "
                                    "an operation on another instance?)"
                                    % (rec["cls"], name, plain(cur) if cur is not UNSET else cur,
                                       want), step)
                for part in all_mutables(cur):
                    if True:
                        if id(part) in seen and seen[id(part)] is not o:
                            raise Violation("C10.shared-default",
                                            "two instances hold the very same %s object for %s"
                                            % (type(part).__name__, name), step)
                        seen[id(part)] = o
            for name, v in rec["ident"].items():
                if o.__dict__.get(name) is not v:
                    raise Violation("C10.reread-identity", "%s no longer holds the object read "
                                    "before (no assignment in between)" % name, step)
            stats["inspected"] += 1
        # the class
        fp = self.class_fingerprint(classes)
        if fp != fp0:
            raise Violation("C10.class-changed",
                            "class-level trait definitions or notifier populations changed: %r -> %r"
                            % (fp0, fp), step)
        # a fresh instance
        del hlog[:]
        for cn, cls in classes.items():
            f, e = sut(cls)
            if e is not None:
                raise Violation("C10.fresh-default", "constructing a fresh %s raised %r" % (cn, e),
                                step)
            for name in NAMES:
                if name in ("dyn", "fac", "ps"):
                    continue
                v, e = sut(getattr, f, name)
                env.oracle_evals += 1
                if e is not None:
                    raise Violation("C10.fresh-default", "a fresh %s instance cannot read its "
                                    "default %s: %r" % (cn, name, e), step)
                if plain(v) != declared_default(cn, name):
                    raise Violation("C10.fresh-default",
                                    "a fresh %s instance reads %s=%r, declared default is %r"
                                    % (cn, name, plain(v), declared_default(cn, name)), step)
            names = f.trait_names()
            for n in range(3):
                if "extra%d" % n in names:
                    raise Violation("C10.add_trait-leaked", "instance trait extra%d appears on a "
                                    "fresh instance" % n, step)
        del hlog[:]

    def cleanup(self):
        for n in ("A", "B", "Kid"):
            if hasattr(DYN, n):
                delattr(DYN, n)

    def coverage_report(self, cells):
        return {"measure": "(op kind, trait name) cells", "cells_hit": len(cells),
                "cells_total": 4 * len(NAMES) + 8}


def first_mutable(v):
    """The first list/dict/set found in v (looking inside tuples)."""
    if isinstance(v, (list, dict, set)):
        return v
    if isinstance(v, tuple):
        for x in v:
            m = first_mutable(x)
            if m is not None:
                return m
    return None


def all_mutables(v):
    if isinstance(v, (list, dict, set)):
        yield v
    elif isinstance(v, tuple):
        for x in v:
            for m in all_mutables(x):
                yield m


def mk_dyn_handler(mech, hlog, env, owner):
    """A handler that records the object it is called for and the serial number
    of the instance it was registered on."""
    if mech == "otc":
        def h(obj, name, old, new):
            env.point("h:otc")
            hlog.append(("otc", id(obj), name, owner))
    else:
        def h(event):
            env.point("h:obs")
            hlog.append(("obs", id(event.object), event.name, owner))
    return h


PROP = Prop()
