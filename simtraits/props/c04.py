"""C04 - container traits never hold an invalid element or an illegal length.

World: one holder object (static zoo class, see simtraits.zoo04) with List /
Dict / Set traits over Int, CInt, String(maxlen), nested List(List(Int)),
Dict(CInt, List(Int)), List(Instance), and List(Checked) whose validator is a
callback point.  Ops: every mutator of C05-C07 on every container including the
nested inner ones, whole-value assignment, pickle restart / deepcopy / clone
fork with the history continuing on the restored object.  Model: plain Python
containers of converted items plus the bounds.
"""
import copy
import pickle
import sys

from ..core import Violation, stream, sut, exc_name, InjectedFault
from ..core import deep
from ..values import CUR, OBJECTS, ModelTraitError, raw
from . import c05, c06, c07

ID = "C04"

INF = sys.maxsize

# name -> (container kind, item kind(s), bounds or None)
CONTAINERS = {
    "li": ("list", "int"),
    "lc": ("list", "cint"),
    "ls": ("list", "str3"),
    "ll": ("list", "listint3"),
    "lld": ("list", "listint3"),
    "lk": ("list", "checked"),
    "ln": ("list", "item"),
    "di": ("dict", "str", "int"),
    "dl": ("dict", "cint", "listint3"),
    "si": ("set", "int"),
    "sc": ("set", "cint"),
    # containers inside Union(...) on a second object without any recorder
    "ul": ("list", "int"),
    "ud": ("dict", "str", "int"),
    "us": ("set", "int"),
    # on an object of a class built per run: a Dict whose value class is named by a
    # string (resolved at the first store); a bounded List whose implicit default is
    # too short (unreadable until a legal list is assigned)
    "dn": ("dict", "item", "item2"),
    "lb": ("list", "int"),
}
UNAMES = ("ul", "ud", "us")
FNAMES = ("dn", "lb")
TARGETS = ["li", "li", "li", "lc", "ls", "ll", "ll[]", "lld", "lld[]", "lld[]", "lk", "lk", "ln", "di",
           "dl", "dl[]", "si", "sc", "ul", "ud", "us", "dn", "dn", "lb"]

LIST_OPS = [k for k in c05.OPS]
LIST_OPS_NOSORT = [k for k in c05.OPS if k != "sort"]
SET_OPS = [k for k in c07.OPS if k != "copy"]


# ------------------------------------------------------------------ models of the inner traits

def conv(kind, v):
    if kind in ("int", "checked"):
        if type(v) is int:
            return v
    elif kind == "cint":
        if type(v) is int:
            return v
        if type(v) is float:
            return int(v)
        if type(v) is str:
            try:
                return int(v)
            except ValueError:
                pass
    elif kind == "str3":
        # String() documents conversion of int/float values with str()
        if type(v) in (str, int, float) and len(str(v)) <= 3:
            return str(v)
    elif kind == "str":
        if type(v) is str:
            return v
    elif kind == "listint3":
        if type(v) is list and len(v) <= 3 and all(type(x) is int for x in v):
            return list(v)
    elif kind == "item":
        from ..zoo04 import Item
        if v is None or isinstance(v, Item):
            return v
    elif kind == "item2":
        from ..zoo04 import Item2
        if v is None or isinstance(v, Item2):
            return v
    else:
        raise AssertionError(kind)
    raise ModelTraitError()


def convfn(kind):
    return lambda spec: conv(kind, raw(spec))


def predicate(kind, v):
    """Independent membership predicate for stored elements."""
    from ..zoo04 import Item
    if kind in ("int", "checked", "cint"):
        return type(v) is int
    if kind == "str3":
        return type(v) is str and len(v) <= 3
    if kind == "str":
        return type(v) is str
    if kind == "listint3":
        return isinstance(v, list) and len(v) <= 3 and all(type(x) is int for x in v)
    if kind == "item":
        return v is None or isinstance(v, Item)
    if kind == "item2":
        from ..zoo04 import Item2
        return v is None or isinstance(v, Item2)
    raise AssertionError(kind)


def to_spec(v):
    from ..zoo04 import Item
    if type(v) is int:
        return {"t": "int", "v": v}
    if type(v) is str:
        return {"t": "str", "v": v}
    if type(v) is float:
        return {"t": "float", "v": v}
    if v is None:
        return {"t": "bad"}
    if isinstance(v, list):
        return {"t": "list", "vs": [to_spec(x) for x in v]}
    if isinstance(v, Item):
        return {"t": "obj", "i": v.uid}
    from ..zoo04 import Item2
    if isinstance(v, Item2):
        return {"t": "obj", "i": v.uid}
    raise AssertionError(v)


def gen_item(r, kind, fresh, invalid_rate, lookup=False, in_set=False):
    sp = _gen_item(r, kind, fresh, invalid_rate, lookup, in_set)
    if sp == {"t": "bad"} and not in_set and r.random() < 0.4:
        sp = {"t": "bad", "how": "undef"}
    return sp


def _gen_item(r, kind, fresh, invalid_rate, lookup=False, in_set=False):
    """``in_set``: the value will travel inside a raw set - no strings there
    (their hash, hence iteration order and the event log, would depend on
    PYTHONHASHSEED)."""
    x = r.random()
    small = {"t": "int", "v": r.randint(1, 6)}
    if kind in ("int", "checked"):
        if not lookup and x < invalid_rate:
            if in_set:
                return r.choice([{"t": "bad"}, {"t": "float", "v": 1.5}])
            return r.choice([{"t": "str", "v": "ab"}, {"t": "bad"}, {"t": "float", "v": 1.5},
                             {"t": "str", "v": "12"}])
        return small if r.random() < 0.5 else {"t": "int", "v": fresh()}
    if kind == "cint":
        if not lookup and x < invalid_rate:
            if in_set:
                return {"t": "bad"}
            return r.choice([{"t": "str", "v": "ab"}, {"t": "bad"}])
        if not lookup and x < invalid_rate + 0.2:
            if in_set:
                return {"t": "float", "v": fresh() + 0.5}
            return r.choice([{"t": "str", "v": str(fresh())},
                             {"t": "float", "v": fresh() + 0.5}])
        return small if r.random() < 0.5 else {"t": "int", "v": fresh()}
    if kind == "str3":
        if x < invalid_rate:
            return r.choice([{"t": "str", "v": "abcd"}, {"t": "int", "v": 31337}, {"t": "bad"},
                             {"t": "float", "v": 12.5}])
        if x < invalid_rate + 0.15:
            return r.choice([{"t": "int", "v": r.randint(0, 999)}, {"t": "float", "v": 1.5}])
        return {"t": "str", "v": r.choice(["", "a", "b", "ab", "abc", "zzz"])}
    if kind == "str":
        if not lookup and x < invalid_rate:
            return r.choice([{"t": "int", "v": 3}, {"t": "bad"}])
        return {"t": "str", "v": r.choice(["k1", "k2", "k3", "k4", "long-key"])}
    if kind == "listint3":
        if x < invalid_rate:
            return r.choice([
                {"t": "list", "vs": [{"t": "int", "v": fresh()} for _ in range(4)]},
                {"t": "list", "vs": [{"t": "int", "v": 1}, {"t": "str", "v": "x"}]},
                {"t": "int", "v": 5}, {"t": "bad"}, {"t": "str", "v": "ab"}])
        return {"t": "list", "vs": [{"t": "int", "v": fresh()} for _ in range(r.randint(0, 3))]}
    if kind == "item":
        if x < invalid_rate and not lookup:
            return r.choice([{"t": "int", "v": 3}, {"t": "str", "v": "ab"}, {"t": "obj", "i": 10}])
        if lookup:
            return r.choice([{"t": "obj", "i": 0}, {"t": "obj", "i": 1}, {"t": "obj", "i": 2}])
        return r.choice([{"t": "obj", "i": 0}, {"t": "obj", "i": 1}, {"t": "obj", "i": 2},
                         {"t": "bad"}])
    if kind == "item2":
        if x < invalid_rate:
            # (an object of the key class is no value)
            return r.choice([{"t": "int", "v": 3}, {"t": "obj", "i": 0}, {"t": "obj", "i": 1}])
        return r.choice([{"t": "obj", "i": 10}, {"t": "obj", "i": 11}, {"t": "obj", "i": 12},
                         {"t": "bad"}])
    raise AssertionError(kind)


def attempted_length(m, op):
    """Length the operation would produce (as the container computes it before
    mutating); None if the op cannot change the length."""
    k = op["k"]
    L = len(m)
    try:
        if k == "setitem_s":
            if op.get("noniter") or "iter_raise_at" in op:
                return None
            s = c05.mk_slice(op["s"])
            if s.step is None or s.step == 1:
                return L - len(m[s]) + len(op["vs"])
            return None
        if k == "delitem_i":
            return max(L - 1, 0)
        if k == "delitem_s":
            return max(L - len(m[c05.mk_slice(op["s"])]), 0)
        if k in ("append", "insert"):
            return L + 1
        if k in ("extend", "iadd"):
            if "iter_raise_at" in op:
                return None
            return L + len(op["vs"])
        if k == "imul":
            return max(0, L * op["n"])
        if k in ("pop", "pop_last", "remove"):
            return max(L - 1, 0)
        if k == "clear":
            return 0
    except ValueError:
        return None
    return None


def container_step(m, ckind, ikind, bounds, op):
    """Apply a C05/C06/C07-style op to the model container ``m`` of item
    kind(s) ``ikind`` with optional length ``bounds``.  Returns (ret, allowed
    exception names or None for success, at_bound flag); ``m`` is mutated only
    on success."""
    k = op["k"]
    allowed = set()
    at_bound = False
    if ckind == "list":
        trial = list(m)
        ret, val_exc, list_exc = c05.PROP.model_apply(trial, op, convfn(ikind[0]))
        if bounds:
            att = attempted_length(m, op)
            if att is not None and not (bounds[0] <= att <= bounds[1]):
                allowed.add("TraitError")
                at_bound = True
        if val_exc:
            allowed.add(val_exc)
        if list_exc:
            allowed.add(list_exc)
        if op.get("noniter"):
            allowed.add("TypeError")      # ill-formed in two ways: either complaint
        if "iter_raise_at" in op:
            # TraitListObject materialises the iterable before validating:
            # whichever failure comes first in either order is acceptable
            allowed.add(op["iter_exc"])
            for sp in op["vs"]:
                try:
                    conv(ikind[0], raw(sp))
                except ModelTraitError:
                    allowed.add("TraitError")
        if not allowed:
            m[:] = trial
    elif ckind == "dict":
        trial = dict(m)
        mop = op
        if k == "update_kw":
            # the keyword form of dict.update: what the built-in does is an update
            # with the positional pairs followed by the keyword items (the caller
            # decides what a TypeError for the call form itself means)
            mop = {"k": "update_pairs",
                   "pairs": ([] if op.get("nopos") else list(op.get("pairs", ()))) + list(op["kw"])}
        ret, val_exc, dict_exc = c06.PROP.model_apply(trial, mop, convfn(ikind[0]),
                                                      convfn(ikind[1]))
        if val_exc:
            allowed.add(val_exc)
        if dict_exc:
            allowed.add(dict_exc)
        if not allowed:
            m.clear()
            m.update(trial)
    else:
        ret = None
        if k == "pop":
            if not m:
                allowed.add("KeyError")
        else:
            trial = set(m)
            val_exc, set_exc = c07.PROP.model_apply(trial, op, convfn(ikind[0]))
            if val_exc:
                allowed.add(val_exc)
            if set_exc:
                allowed.add(set_exc)
            if not allowed:
                m.clear()
                m.update(trial)
    return ret, (allowed or None), at_bound


class Prop:
    ID = ID
    LEVEL = "exploration"
    CHUNK = 100
    GC_EVERY = 25
    RULE = ("seeded random histories (3-30 ops) on one holder object with ten List/Dict/Set "
            "traits (Int, CInt, String(maxlen), List(List(Int,maxlen)), Dict(CInt,List(Int)), "
            "List(Instance), List(Checked) with a fault-point validator, bounded List): every "
            "mutator of C05-C07 on every container incl. the nested inner ones with valid / "
            "convertible / invalid items and arbitrary indices/slices, whole-value assignment, "
            "pickle restart and deepcopy/clone fork with the history continuing on the copy; "
            "non-trivial = at least one successful content change and one rejected op; "
            "distinct = distinct abstract traces (target, op kind, outcome class, at-bound flag, "
            "fault fired per op)")
    ASSUMPTIONS = ["a container whose owner object has been collected no longer validates by "
                   "design and is not checked",
                   "oracle accepts TraitError or the built-in's exception class when an op is both "
                   "ill-formed for the built-in and violates an item or length constraint"]

    # ------------------------------------------------------------------ generation
    def gen(self, seed):
        c = stream(seed, "config")
        r = stream(seed, "ops")
        er = stream(seed, "env")
        bidx = c.randrange(4)
        nops = deep(c, [3, 6, 10, 15, 22, 30], [45, 70])
        invalid_rate = c.choice([0.05, 0.15, 0.3])
        fault_rate = c.choice([0.0, 0.0, 0.15, 0.3])
        restart_rate = c.choice([0.0, 0.03, 0.08])
        focus = c.choice([None, None] + TARGETS)
        ctr = [100]

        def fresh():
            ctr[0] += 1
            return ctr[0]
        from ..zoo04 import BOUNDS
        lo, hi = BOUNDS[bidx]
        model = self.initial_model(lo)
        ops = []
        for _ in range(nops):
            if r.random() < restart_rate:
                op = r.choice([{"k": "restart", "proto": r.choice([2, 3, 4, 5])},
                               {"k": "fork", "how": r.choice(["deepcopy", "clone"])}])
                ops.append(op)
                continue
            t = focus if (focus and r.random() < 0.7) else r.choice(TARGETS)
            j = r.randrange(8)
            on = [t[:-2], j] if t.endswith("[]") else t
            m, ckind, ikind, bounds = self.resolve_model(model, on, (lo, hi))
            if m is None:
                on = t[:-2] if t.endswith("[]") else t
                m, ckind, ikind, bounds = self.resolve_model(model, on, (lo, hi))
            if on == "lb" and m is None:
                # no legal value yet: only a whole-value assignment can give it one
                op = self.gen_assign(r, on, fresh, invalid_rate, (2, 4))
            elif r.random() < 0.08 and not isinstance(on, list):
                op = self.gen_assign(r, on, fresh, invalid_rate, bounds)
            elif ckind == "list":
                kinds = LIST_OPS_NOSORT if ikind[0] == "item" else LIST_OPS

                def item():
                    return gen_item(r, ikind[0], fresh, invalid_rate)
                op = c05.gen_list_op(r, m, item, kinds)
                if op["k"] == "remove":
                    op["v"] = to_spec(r.choice(m)) if m and r.random() < 0.8 else {"t": "int", "v": 7}
                if op["k"] == "sort":
                    op["key"] = None
                if "vs" in op and r.random() < 0.05:
                    op["iter_raise_at"] = r.randint(0, len(op["vs"]))
                    op["iter_exc"] = r.choice(["ValueError", "RuntimeError", "KeyError"])
                # bias towards the bounds
                if bounds and bounds[1] < INF and r.random() < 0.15:
                    op = {"k": "extend", "vs": [item() for _ in range(max(0, bounds[1] - len(m)) + r.choice([0, 0, 1]))]}
            elif ckind == "dict":
                def key(lookup=False):
                    return gen_item(r, ikind[0], fresh, 0.0 if lookup else invalid_rate, lookup)

                def val():
                    return gen_item(r, ikind[1], fresh, invalid_rate)
                op, _, _ = c06.gen_dict_op(r, key, val)
                if r.random() < 0.07:
                    # dict.update(**kw) / dict.update(pairs, **kw): keyword items
                    # must be validated like any other (or the form be refused)
                    op = {"k": "update_kw", "nopos": r.random() < 0.5,
                          "pairs": [[key(), val()] for _ in range(r.randint(0, 2))],
                          "kw": [[{"t": "str", "v": str(r.choice([1, 2, 3, fresh()]))}, val()]
                                 for _ in range(r.randint(1, 2))]}
            else:
                def sitem(validating):
                    return gen_item(r, ikind[0], fresh, invalid_rate if validating else 0.0,
                                    not validating, True)
                op, _ = c07.gen_set_op(r, sitem, False, SET_OPS)
            op["on"] = on
            if (on == "lk") and er.random() < fault_rate:
                nval = len(op["vs"]) if "vs" in op else (1 if "v" in op and op["k"] != "remove" else 0)
                if nval:
                    op["env"] = [{"at": "checked", "nth": er.randint(1, nval),
                                  "do": er.choice(["raise", "raise", "raise", "gc"]),
                                  "exc": er.choice(["TraitError", "ValueError",
                                                    "AttributeError", "RuntimeError"])}]
            ops.append(op)
            if not op.get("env") and op["k"] != "update_kw":
                try:
                    self.model_step(model, op, (lo, hi))
                except Exception:      # noqa: BLE001 - generator's model copy is best effort
                    pass
        return {"prop": ID, "seed": seed,
                "config": {"bounds": bidx,
                           # the holder class is built anew for this run (nothing that an
                           # earlier run left on the class or its trait definitions is seen)
                           "fresh_class": True},
                "ops": ops}

    @staticmethod
    def gen_assign(r, on, fresh, invalid_rate, bounds):
        ckind = CONTAINERS[on][0]
        ik = CONTAINERS[on][1:]
        x = r.random()
        if x < 0.15:
            return {"k": "assign_bad", "how": r.choice(["tuple", "none", "int", "wrongkind"]
                                                       if on not in UNAMES else
                                                       ["tuple", "int", "wrongkind"])}
        if x < 0.25:
            # 'del holder.trait': back to the declared default (which obeys the bounds)
            return {"k": "reset"}
        n = r.randint(0, 5)
        if bounds and r.random() < 0.5:
            n = r.choice([max(0, bounds[0] - 1), bounds[0], min(bounds[1], 7), min(bounds[1], 6) + 1])
        if ckind == "dict":
            return {"k": "assign", "pairs": [[gen_item(r, ik[0], fresh, invalid_rate),
                                               gen_item(r, ik[1], fresh, invalid_rate)]
                                              for _ in range(n)]}
        return {"k": "assign", "vs": [gen_item(r, ik[0], fresh, invalid_rate, False, ckind == "set")
                                      for _ in range(n)]}

    # ------------------------------------------------------------------ model
    @staticmethod
    def initial_model(lo):
        return {"li": list(range(lo)), "lc": [], "ls": [], "ll": [], "lld": [[1, 2], [3]], "lk": [], "ln": [],
                "di": {}, "dl": {}, "si": set(), "sc": set(),
                "ul": [], "ud": {}, "us": set(), "dn": {}, "lb": None}

    @staticmethod
    def resolve_model(model, on, li_bounds):
        """-> (model container, container kind, item kinds, bounds)"""
        if isinstance(on, list):
            name, j = on
            outer = model[name]
            if not outer:
                return None, None, None, None
            if name in ("ll", "lld"):
                return outer[j % len(outer)], "list", ("int",), (0, 3)
            keys = sorted(outer)
            return outer[keys[j % len(keys)]], "list", ("int",), (0, 3)
        ck = CONTAINERS[on][0]
        bounds = None
        if on == "lb":
            bounds = (2, 4)
        elif on == "li":
            bounds = li_bounds
        elif on in ("ll", "lld"):
            bounds = (0, 4)
        return model[on], ck, CONTAINERS[on][1:], bounds

    def model_step(self, model, op, li_bounds):
        """Apply op to the model.  Returns (ret, allowed exception names or
        None for success, at_bound flag)."""
        k = op["k"]
        on = op.get("on")
        if k in ("restart", "fork"):
            return None, None, False
        m, ckind, ikind, bounds = self.resolve_model(model, on, li_bounds)
        if m is None and not (on == "lb" and k in ("assign", "assign_bad", "reset")):
            return None, "skip", False
        if k == "imul" and on in ("ll", "lld") and op["n"] >= 2:
            # would alias inner lists; restart/fork legitimately un-share them
            return None, "skip", False
        if k == "assign_bad":
            return None, {"TraitError"}, False
        if k == "reset":
            model[on] = self.initial_model(li_bounds[0])[on]
            return None, None, False
        if k == "assign":
            try:
                if ckind == "dict":
                    rawd = {}
                    for a, b in op["pairs"]:      # the dict handed to traits: raw-equal
                        rawd[raw(a)] = raw(b)     # keys collapse, later value wins
                    new = {}
                    for ka, vb in rawd.items():
                        new[conv(ikind[0], ka)] = conv(ikind[1], vb)
                elif ckind == "set":
                    new = {conv(ikind[0], raw(s)) for s in op["vs"]}
                else:
                    new = [conv(ikind[0], raw(s)) for s in op["vs"]]
                    if bounds and not (bounds[0] <= len(new) <= bounds[1]):
                        raise ModelTraitError()
            except ModelTraitError:
                return None, {"TraitError"}, False
            except TypeError:
                return None, {"TraitError", "TypeError"}, False
            model[on] = new
            return None, None, False
        return container_step(m, ckind, ikind, bounds, op)

    # ------------------------------------------------------------------ execution
    def own(self, h, name):
        if name in FNAMES:
            return self._f
        return self._u if name in UNAMES else h

    def resolve_sut(self, h, on):
        if isinstance(on, list):
            name, j = on
            outer = getattr(h, name)
            if not outer:
                return None
            if name in ("ll", "lld"):
                return outer[j % len(outer)]
            keys = sorted(outer)
            return outer[keys[j % len(keys)]]
        return getattr(self.own(h, on), on)

    def execute(self, trace, env):
        from ..zoo04 import HOLDERS, BOUNDS, Item
        from traits.trait_errors import TraitError
        CUR["env"] = env
        bidx = trace["config"]["bounds"]
        lo, hi = BOUNDS[bidx]
        OBJECTS.clear()
        for n in range(3):
            OBJECTS[n] = Item(uid=n)
        # an earlier instance of the class reads its defaults (the nested ones too) and is
        # gone - collected - before the object under test exists
        if trace["config"].get("fresh_class"):
            from ..zoo04 import _make
            _make(lo, hi, bidx)
        pred = HOLDERS[bidx]()
        for pname in ("lld", "ll", "dl", "li"):
            getattr(pred, pname)
        del pred
        import gc as _gc
        _gc.collect()
        h = HOLDERS[bidx]()
        from ..zoo04 import UHolder
        self._u = UHolder()
        from ..zoo04 import make_fholder, Item2
        self._f = make_fholder()()
        for n in range(10, 13):
            OBJECTS[n] = Item2(uid=n)
        model = self.initial_model(lo)
        calls = []

        def rec_otc(obj, name, old, new):
            env.log("otc", name)
            calls.append(("otc", name))

        def rec_obs(event):
            env.log("obs", None)
            calls.append(("obs", type(event).__name__))

        def attach(obj):
            for name in CONTAINERS:
                if name in UNAMES or name in FNAMES:
                    continue
                obj.on_trait_change(rec_otc, name)
                obj.on_trait_change(rec_otc, name + "_items")
                obj.observe(rec_obs, name + ".items")
            obj.observe(rec_obs, "ll.items.items")
            obj.observe(rec_obs, "lld.items.items")
            obj.observe(rec_obs, "dl.items.items")
        attach(h)
        self.check_all(h, model, -1)
        ok_changes = rejected = 0
        for i, op in enumerate(trace["ops"]):
            env.begin_op(i, op)
            del calls[:]
            k = op["k"]
            env.oracle_evals += 1
            if k == "restart":
                res, e = sut(lambda: pickle.loads(pickle.dumps((h, self._u), op["proto"])))
                h2, u2 = res if e is None else (None, None)
                env.end_op()
                if e is not None:
                    raise Violation("C04.restart", "pickle round trip raised %r" % (e,), i)
                h, self._u = h2, u2
                attach(h)
                self.check_all(h, model, i)
                env.token("restart")
                continue
            if k == "fork":
                if op["how"] == "deepcopy":
                    res, e = sut(copy.deepcopy, (h, self._u))
                else:
                    res, e = sut(lambda: (h.clone_traits(), self._u.clone_traits()))
                h2, u2 = res if e is None else (None, None)
                env.end_op()
                if e is not None:
                    raise Violation("C04.fork", "%s raised %r" % (op["how"], e), i)
                h, self._u = h2, u2
                attach(h)
                self.check_all(h, model, i)
                env.token("fork", op["how"])
                continue
            on = op["on"]
            if on == "lb" and model["lb"] is None:
                if k not in ("assign", "assign_bad", "reset"):
                    env.end_op()
                    env.token("skip")
                    continue
                target, mt = "unset", "unset"
            else:
                target = self.resolve_sut(h, on)
                mt = self.resolve_model(model, on, (lo, hi))[0]
            if (target is None) != (mt is None):
                raise Violation("C04.contents", "container %r: model and object disagree on "
                                "emptiness" % (on,), i)
            if target is None:
                env.end_op()
                env.token("skip")
                continue
            fired0 = env.fired["raise"]
            inner_before = list(mt) if isinstance(on, list) else None
            ret_m, allowed, at_bound = self.model_step_guarded(model, op, (lo, hi))
            if allowed == "skip":
                env.end_op()
                env.token("skip")
                continue
            ckind = "list" if isinstance(on, list) else CONTAINERS[on][0]
            name = on[0] if isinstance(on, list) else on
            if k == "assign":
                if ckind == "dict":
                    value, e0 = sut(lambda: {raw(a): raw(b) for a, b in op["pairs"]})
                elif ckind == "set":
                    value, e0 = sut(lambda: {raw(s) for s in op["vs"]})
                else:
                    value, e0 = [raw(s) for s in op["vs"]], None
                if e0 is not None:      # unhashable raw item: not an assignment at all
                    env.end_op()
                    env.token("skip")
                    continue
                ret, e = sut(setattr, self.own(h, name), name, value)
            elif k == "assign_bad":
                bad = {"tuple": (1, 2), "none": None, "int": 5,
                       "wrongkind": {1} if ckind != "set" else [1]}[op["how"]]
                ret, e = sut(setattr, self.own(h, name), name, bad)
            elif k == "reset":
                ret, e = sut(delattr, self.own(h, name), name)
            elif ckind == "list":
                ret, e = c05.sut_list_apply(target, op)
            elif ckind == "dict":
                ret, e = c06.sut_dict_apply(target, op)
            else:
                ret, e = c07.sut_set_apply(target, op)
                if k == "pop" and e is None:
                    if ret not in mt:
                        raise Violation("C04.contents", "set pop returned a non-member", i)
                    mt.discard(ret)
            env.end_op()
            injected = env.fired["raise"] > fired0
            en = exc_name(e)
            if k == "update_kw" and en == "TypeError" and not injected:
                # the call form itself is not offered (dict.update's keyword form is
                # no part of TraitDict.update's signature): then nothing happened
                if allowed is None:
                    self.restore(model, self._saved)
                allowed = {"TypeError"}
            if injected:
                # validator callback failed: model must not have moved
                if allowed is None:
                    self.restore(model, self._saved)
                if not isinstance(e, InjectedFault):
                    raise Violation("C04.fault-propagation",
                                    "%s on %r: validator raised an injected fault, caller saw %r"
                                    % (k, on, e), i)
                expect_fail = True
            elif allowed is not None:
                expect_fail = True
                if en not in allowed:
                    raise Violation("C04.rejects",
                                    "%s on %r (%s): expected %s, got %r"
                                    % (describe(op), on, self.show(mt), " or ".join(sorted(allowed)), e), i)
            else:
                expect_fail = False
                if e is not None:
                    raise Violation("C04.accepts",
                                    "%s on %r (%s): model accepts, traits raised %r"
                                    % (describe(op), on, self.show(mt), e), i)
            self.check_all(h, model, i, op)
            if expect_fail:
                rejected += 1
                if calls:
                    raise Violation("C04.notify-on-failure",
                                    "%s on %r failed with %s but handlers were called: %r"
                                    % (describe(op), on, en, calls[:4]), i)
            else:
                ok_changes += 1
                if inner_before is not None and list(mt) != inner_before \
                        and not any(cl[0] == "obs" for cl in calls):
                    # the inner list was stored by an earlier operation on the outer
                    # container: whatever object is stored there must be the observed one
                    raise Violation("C04.inner-not-observed",
                                    "%s on %r changed an inner list (%r -> %r) but the observer of "
                                    "'%s.items.items' was not called: the stored container is "
                                    "not the one that was announced"
                                    % (describe(op), on, inner_before, list(mt), name), i)
                if ckind == "list" and k in ("pop", "pop_last") and ret != ret_m:
                    raise Violation("C04.contents", "pop returned %r, model %r" % (ret, ret_m), i)
            env.token(name, isinstance(on, list), k, "fail" if expect_fail else "ok", en,
                      at_bound, injected)
            env.cover(name, isinstance(on, list), k, "fail" if expect_fail else "ok", at_bound)
        env.nontrivial = ok_changes > 0 and rejected > 0

    def model_step_guarded(self, model, op, li_bounds):
        self._saved = self.snapshot(model)
        return self.model_step(model, op, li_bounds)

    @staticmethod
    def snapshot(model):
        out = {}
        for k, v in model.items():
            if k in ("ll", "lld"):
                out[k] = [list(x) for x in v]
            elif k == "dl":
                out[k] = {a: list(b) for a, b in v.items()}
            elif v is None:
                out[k] = None
            else:
                out[k] = type(v)(v)
        return out

    @staticmethod
    def restore(model, snap):
        model.clear()
        model.update(snap)

    @staticmethod
    def show(m):
        s = repr(m)
        return s if len(s) < 80 else s[:77] + "..."

    def check_all(self, h, model, i, op=None):
        for name, desc in CONTAINERS.items():
            want = model[name]
            if want is None:
                # no legal value yet (the implicit default is shorter than minlen): the
                # trait is unreadable - or reads as a list of legal length
                got, e = sut(getattr, self.own(h, name), name)
                if e is None and not (2 <= len(got) <= 4):
                    raise Violation("C04.default-length",
                                    "after %s: trait %r (minlen=2) reads as %r"
                                    % (describe(op) if op else "construction", name, got), i)
                continue
            got = getattr(self.own(h, name), name)
            ck = desc[0]
            if ck == "list":
                same = list(got) == want and all(type(a) is type(b) or isinstance(a, list)
                                                 for a, b in zip(got, want))
            elif ck == "dict":
                same = dict(got) == want
            else:
                same = set(got) == want
            if not same:
                raise Violation("C04.contents",
                                "after %s: trait %r holds %r, model holds %r"
                                % (describe(op) if op else "construction", name, got, want), i)
            if ck == "dict":
                okp = all(predicate(desc[1], a) and predicate(desc[2], b) for a, b in got.items())
            else:
                okp = all(predicate(desc[1], a) for a in got)
            if not okp:
                raise Violation("C04.element-domain",
                                "after %s: trait %r holds an element outside its inner trait: %r"
                                % (describe(op) if op else "construction", name, got), i)
        from ..zoo04 import BOUNDS
        # length bounds are part of the model comparison (model never leaves them)

    # ------------------------------------------------------------------ shrinking
    def simplify_op(self, op):
        k = op["k"]
        if k in c05.OPS:
            for o in c05.PROP.simplify_op(op):
                yield o
        if op.get("pairs"):
            for j in range(len(op["pairs"])):
                o = dict(op)
                o["pairs"] = op["pairs"][:j] + op["pairs"][j + 1:]
                if "bad_at" in o:
                    o["bad_at"] = min(o["bad_at"], len(o["pairs"]))
                yield o

    def coverage_report(self, cells):
        targets = {(c[0], c[1]) for c in cells}
        return {"measure": "(container, inner?, mutator, outcome, at-bound) cells",
                "cells_hit": len(cells),
                "containers_hit": sorted("%s%s" % (a, "[]" if b else "") for a, b in targets),
                "rejected_at_bound_cells": len([c for c in cells if c[3] == "fail" and c[4]])}

    def cleanup(self):
        self._u = None
        self._f = None
        CUR["env"] = None
        OBJECTS.clear()


def describe(op):
    if op is None:
        return "?"
    k = op["k"]
    if k == "assign":
        if "pairs" in op:
            return "assign(%r)" % ([(raw_s(a), raw_s(b)) for a, b in op["pairs"]],)
        return "assign(%r)" % ([raw_s(s) for s in op["vs"]],)
    if k == "assign_bad":
        return "assign_bad(%s)" % op["how"]
    if "s" in op:
        return "%s[%s:%s:%s]%s" % (k, op["s"][0], op["s"][1], op["s"][2],
                                   (" = %r" % [raw_s(s) for s in op["vs"]]) if "vs" in op else "")
    parts = []
    for f in ("i", "n"):
        if f in op:
            parts.append(str(op[f]))
    if isinstance(op.get("key"), dict):
        parts.append(repr(raw_s(op["key"])))
    if "v" in op:
        parts.append(repr(raw_s(op["v"])))
    if "vs" in op:
        parts.append(repr([raw_s(s) for s in op["vs"]]))
    if "pairs" in op and not op.get("nopos"):
        parts.append(repr([(raw_s(a), raw_s(b)) for a, b in op["pairs"]]))
    if "kw" in op:
        parts.append("**%r" % ({raw_s(a): raw_s(b) for a, b in op["kw"]},))
    if "args" in op:
        parts.append(repr([[raw_s(s) for s in a] for a in op["args"]]))
    return "%s(%s)" % (k, ", ".join(parts))


def raw_s(spec):
    if spec["t"] == "obj":
        return "Item#%d" % spec["i"]
    if spec["t"] == "list":
        return [raw_s(s) for s in spec["vs"]]
    return raw(spec)


PROP = Prop()
