"""C06 - TraitDict refines dict; change events are faithful deltas.

World: one stand-alone TraitDict with harness key/value validators (callback
points) and 1-3 listeners (raw notifiers and observers in generated order).
Model: a built-in dict of validated keys/values.  Lookup-style operations
(del, pop, setdefault's hit test) use the key as given, insertions use the
validated key/value - the generator only uses already-valid keys for lookup
operations, so both readings of "the same operations on validated keys"
coincide on everything generated.
"""
from ..core import Violation, stream, sut, exc_name, InjectedFault
from ..core import deep
from ..values import (CUR, ModelTraitError, raw, mval, make_validator,
                      RaisingIter)

ID = "C06"

OPS = ["setitem", "setitem", "delitem", "update_map", "update_pairs", "ior_map",
       "ior_pairs", "setdefault", "setdefault_none", "pop", "pop_default",
       "popitem", "clear", "update_bad"]


def check_raw_event(before, after, removed, added, changed):
    for name, d in (("removed", removed), ("added", added), ("changed", changed)):
        if type(d) is not dict:
            raise AssertionError("%s is not a dict" % name)
    if not removed and not added and not changed:
        raise AssertionError("event with all three parts empty")
    for k in added:
        if k in before:
            raise AssertionError("added key %r was present before" % (k,))
        if k not in after or after[k] != added[k]:
            raise AssertionError("added key %r does not hold the given value" % (k,))
    for k in changed:
        if k not in before or before[k] != changed[k]:
            raise AssertionError("changed key %r did not hold the given old value" % (k,))
        if k not in after:
            raise AssertionError("changed key %r is gone" % (k,))
    for k in removed:
        if k not in before or before[k] != removed[k]:
            raise AssertionError("removed key %r did not hold the given value" % (k,))
        if k in after:
            raise AssertionError("removed key %r is still present" % (k,))
    prev = dict(after)
    for k in added:
        del prev[k]
    prev.update(changed)
    prev.update(removed)
    if prev != before:
        raise AssertionError("reconstruction gives %r, previous contents were %r"
                             % (prev, before))


def check_obs_event(before, after, removed, added):
    if type(removed) is not dict or type(added) is not dict:
        raise AssertionError("removed/added not dicts")
    if not removed and not added:
        raise AssertionError("observer event with both parts empty")
    for k in added:
        if k not in after or after[k] != added[k]:
            raise AssertionError("added key %r does not hold the given value" % (k,))
        if k in before and k not in removed:
            raise AssertionError("key %r existed before but old value not in removed" % (k,))
    for k in removed:
        if k not in before or before[k] != removed[k]:
            raise AssertionError("removed key %r did not hold the given value" % (k,))
        if k in after and k not in added:
            raise AssertionError("removed key %r still present and not in added" % (k,))
    prev = {k: v for k, v in after.items() if k not in added}
    prev.update(removed)
    if prev != before:
        raise AssertionError("reconstruction gives %r, previous contents were %r"
                             % (prev, before))


def gen_dict_op(r, key, val, ops=OPS):
    """One dict-mutator op; returns (op, #key validations, #value validations)
    it would perform if nothing fails."""
    k = r.choice(ops)
    op = {"k": k}
    nk = nv = 0
    if k == "setitem":
        op["key"] = key()
        op["v"] = val()
        nk = nv = 1
    elif k in ("delitem", "pop"):
        op["key"] = key(True)
    elif k == "pop_default":
        op["key"] = key(True)
        # the default may be the very object that is stored (or an equal one)
        op["dflt"] = r.choice(["const", "const", "same", "same", "equal"])
    elif k in ("update_map", "update_pairs", "ior_map", "ior_pairs"):
        op["pairs"] = [[key(), val()] for _ in range(r.randint(0, 4))]
        nk = nv = len(op["pairs"])
        if k.endswith("map") and r.random() < 0.25:
            op["as"] = r.choice(["userdict", "proxy", "chainmap"])
        if k.endswith("pairs") and r.random() < 0.1:
            op["iter_raise_at"] = r.randint(0, len(op["pairs"]))
            op["iter_exc"] = r.choice(["ValueError", "RuntimeError", "KeyError"])
    elif k == "update_bad":
        op["pairs"] = [[key(), val()] for _ in range(r.randint(0, 2))]
        op["bad"] = r.choice(["len1", "len3", "noniter"])
        op["bad_at"] = r.randint(0, len(op["pairs"]))
        nk = nv = op["bad_at"]
    elif k == "setdefault":
        op["key"] = key(True)
        op["v"] = val()
        nk = nv = 1
    elif k == "setdefault_none":
        op["key"] = key(True)
        nk = nv = 1
    return op, nk, nv


def build_dict_arg(op):
    """The concrete argument handed to update/|= (same object shape for the
    model and for the system under test)."""
    k = op["k"]
    pairs = [(raw(a), raw(b)) for a, b in op.get("pairs", ())]
    if k in ("update_map", "ior_map"):
        d = dict(pairs)
        how = op.get("as")
        if how == "userdict":
            import collections
            return collections.UserDict(d)      # a mapping that is no dict
        if how == "proxy":
            import types
            return types.MappingProxyType(d)
        if how == "chainmap":
            import collections
            return collections.ChainMap(d)
        return d
    if k == "update_bad":
        bad = {"len1": (1,), "len3": (1, 2, 3), "noniter": 5}[op["bad"]]
        pairs = list(pairs)
        pairs.insert(min(op["bad_at"], len(pairs)), bad)
        return pairs
    if "iter_raise_at" in op:
        return RaisingIter(pairs, op["iter_raise_at"], op["iter_exc"])
    return pairs


def pop_default_value(d, op):
    """Default handed to pop(key, default): a constant, the stored object
    itself, or an equal but not identical object."""
    how = op.get("dflt", "const")
    key = raw(op["key"])
    if how == "const" or key not in d:
        return -1
    cur = dict.__getitem__(d, key)
    if how == "same":
        return cur
    if type(cur) is int:
        return int(str(cur))
    return cur


def sut_dict_apply(td, op):
    k = op["k"]
    if k == "setitem":
        return sut(td.__setitem__, raw(op["key"]), raw(op["v"]))
    if k == "delitem":
        return sut(td.__delitem__, raw(op["key"]))
    if k == "pop":
        return sut(td.pop, raw(op["key"]))
    if k == "pop_default":
        return sut(td.pop, raw(op["key"]), pop_default_value(td, op))
    if k == "popitem":
        return sut(td.popitem)
    if k == "clear":
        return sut(td.clear)
    if k == "setdefault":
        return sut(td.setdefault, raw(op["key"]), raw(op["v"]))
    if k == "setdefault_none":
        return sut(td.setdefault, raw(op["key"]))
    if k in ("update_map", "update_pairs", "update_bad"):
        return sut(td.update, build_dict_arg(op))
    if k in ("ior_map", "ior_pairs"):
        return sut(td.__ior__, build_dict_arg(op))
    if k == "update_kw":
        # dict.update's keyword form (used by C04 only; see c04.container_step)
        kw = {raw(a): raw(b) for a, b in op["kw"]}
        if op.get("nopos"):
            return sut(lambda: td.update(**kw))
        pairs = [(raw(a), raw(b)) for a, b in op.get("pairs", ())]
        return sut(lambda: td.update(pairs, **kw))
    raise AssertionError(k)


class Prop:
    ID = ID
    LEVEL = "exploration"
    CHUNK = 400
    GC_EVERY = 100
    RULE = ("seeded random histories (3-25 ops over __setitem__, __delitem__, update/|= "
            "with mappings and pair iterables incl. duplicate and coercible keys, malformed "
            "pairs, raising iterables, setdefault, pop with/without default, popitem, clear) "
            "with coercing/rejecting key and value validators that are fault points, "
            "against a built-in dict; non-trivial = at least one content change whose event "
            "passed the reconstruction law; distinct = distinct abstract traces (op kind, "
            "key-overlap pattern, outcome class, fault fired, event shape per op)")
    ASSUMPTIONS = ["keys/values are ints or coercible digit strings; lookup operations are "
                   "generated with already-valid keys only",
                   "oracle accepts TraitError or the built-in's exception class when an op is "
                   "both ill-formed for dict and carries an invalid item"]

    def gen(self, seed):
        c = stream(seed, "config")
        r = stream(seed, "ops")
        er = stream(seed, "env")
        kk = c.choice(["none", "coerce", "point", "point"])
        vk = c.choice(["none", "coerce", "point", "point"])
        listeners = [c.choice(["raw", "raw", "obs"]) for _ in range(c.randint(1, 3))]
        nops = deep(c, [3, 5, 8, 12, 18, 25], [40, 70])
        fault_rate = c.choice([0.0, 0.0, 0.1, 0.25])
        invalid_rate = c.choice([0.0, 0.05, 0.15])
        ctr = [100]
        keyspace = list(range(1, deep(c, [3, 5, 8], [12]) + 1))

        def fresh():
            ctr[0] += 1
            return ctr[0]

        def key(lookup=False):
            x = r.random()
            kv = r.choice(keyspace)
            if lookup:
                return {"t": "int", "v": kv}
            if kk != "none" and x < invalid_rate:
                return {"t": "bad"}
            if kk != "none" and x < invalid_rate + 0.2:
                return {"t": "str", "v": str(kv)}
            return {"t": "int", "v": kv}

        def val():
            x = r.random()
            if vk != "none" and x < invalid_rate:
                return {"t": "bad"}
            if vk != "none" and x < invalid_rate + 0.15:
                return {"t": "str", "v": str(fresh())}
            if x > 0.9:
                return {"t": "int", "v": r.choice([1, 2])}      # repeated values
            return {"t": "int", "v": fresh()}
        init = []
        for kv in keyspace:
            if c.random() < 0.5:
                init.append([{"t": "int", "v": kv}, {"t": "int", "v": fresh()}])
        ops = []
        for _ in range(nops):
            op, nk, nv = gen_dict_op(r, key, val)
            k = op["k"]
            sites = []
            if kk == "point" and nk:
                sites.append(("kvalidator", nk))
            if vk == "point" and nv:
                sites.append(("vvalidator", nv))
            if sites and er.random() < fault_rate:
                site, n = er.choice(sites)
                op["env"] = [{"at": site, "nth": er.randint(1, n), "do": "raise",
                              "exc": er.choice(["TraitError", "ValueError",
                                                "AttributeError", "RuntimeError"])}]
            elif sites and er.random() < 0.03:
                op["env"] = [{"at": sites[0][0], "nth": 1, "do": "gc"}]
            ops.append(op)
        return {"prop": ID, "seed": seed,
                "config": {"kk": kk, "vk": vk, "init": init, "listeners": listeners,
                           # a second dict next to this one (built alike, or a copy of it):
                           # neither hears the other
                           # extra raw notifiers, one of which unhooks others mid-notification
                           "unhook": ({"n": 3, "at": c.randrange(6), "who": c.randrange(3),
                                       "victims": c.sample(range(3), c.randint(1, 2))}
                                      if c.random() < 0.25 else None),
                           "sibling": c.choice([None, None, "plain", "copy", "deepcopy",
                                                "pickle"])},
                "ops": ops}

    # ------------------------------------------------------------------ model
    @staticmethod
    def model_apply(m, op, kk, vk):
        k = op["k"]
        val_exc = None
        dict_exc = None
        ret = None
        trial = dict(m)

        def V(spec, kind):
            return mval(spec, kind)
        try:
            if k == "setitem":
                try:
                    a = V(op["key"], kk)
                    b = V(op["v"], vk)
                    trial[a] = b
                except ModelTraitError:
                    val_exc = "TraitError"
            elif k == "delitem":
                del trial[raw(op["key"])]
            elif k == "pop":
                ret = trial.pop(raw(op["key"]))
            elif k == "pop_default":
                ret = trial.pop(raw(op["key"]), pop_default_value(trial, op))
            elif k == "popitem":
                ret = trial.popitem()
            elif k == "clear":
                trial.clear()
            elif k in ("setdefault", "setdefault_none"):
                key = raw(op["key"])
                if key in trial:
                    ret = trial[key]
                else:
                    try:
                        a = V(op["key"], kk)
                        b = V(op["v"], vk) if "v" in op else V({"t": "bad"}, vk)
                        trial[a] = b
                        ret = b
                    except ModelTraitError:
                        val_exc = "TraitError"
            else:
                # update family: iterate the very same argument shape
                pairs = op.get("pairs", ())
                specs = {}
                if k in ("update_map", "ior_map"):
                    seq = []
                    seen = {}
                    for a, b in pairs:          # dict(pairs): later value wins,
                        ra = raw(a)             # position of first occurrence
                        if ra in seen:
                            seq[seen[ra]] = (a, b)
                        else:
                            seen[ra] = len(seq)
                            seq.append((a, b))
                else:
                    seq = list(pairs)
                ra_at = op.get("iter_raise_at")
                bad_at = min(op["bad_at"], len(seq)) if k == "update_bad" else None
                vd = {}
                idx = 0
                for a, b in seq:
                    if bad_at is not None and idx == bad_at:
                        break
                    if ra_at is not None and idx == ra_at:
                        val_exc = op["iter_exc"]
                        break
                    try:
                        x = V(a, kk)
                        y = V(b, vk)
                    except ModelTraitError:
                        val_exc = "TraitError"
                        break
                    vd[x] = y
                    idx += 1
                else:
                    if ra_at is not None and ra_at >= len(seq):
                        val_exc = op["iter_exc"]
                if k == "update_bad" and val_exc is None:
                    dict_exc = "TypeError" if op["bad"] == "noniter" else "ValueError"
                elif k == "update_bad":
                    dict_exc = "TypeError" if op["bad"] == "noniter" else "ValueError"
                if val_exc is None and dict_exc is None:
                    trial.update(vd)
        except KeyError:
            dict_exc = "KeyError"
        if val_exc is None and dict_exc is None:
            m.clear()
            m.update(trial)
        return ret, val_exc, dict_exc

    # ------------------------------------------------------------------ execute
    def execute(self, trace, env):
        from traits.trait_dict_object import TraitDict
        from traits.observation.api import observe
        from traits.observation import expression
        CUR["env"] = env
        cfg = trace["config"]
        kk, vk = cfg["kk"], cfg["vk"]
        m = {}
        for a, b in cfg["init"]:
            m[mval(a, kk)] = mval(b, vk)
        td = TraitDict({raw(a): raw(b) for a, b in cfg["init"]},
                       key_validator=make_validator(kk, "kvalidator"),
                       value_validator=make_validator(vk, "vvalidator"))
        if dict(td) != m:
            raise Violation("C06.construct", "TraitDict holds %r, expected %r" % (dict(td), m), 0)
        recs = []
        for kind in cfg["listeners"]:
            rec = []
            recs.append((kind, rec))
            if kind == "raw":
                def notifier(d, removed, added, changed, rec=rec):
                    env.log("raw", None)
                    rec.append((d, dict(removed), dict(added), dict(changed),
                                type(removed), type(added), type(changed)))
                td.notifiers.append(notifier)
            else:
                def handler(event, rec=rec):
                    env.log("obs", None)
                    rec.append((event.object, dict(event.removed), dict(event.added),
                                type(event.removed), type(event.added)))
                observe(td, expression.dict_items(), handler)
        unh = None
        if cfg.get("unhook"):
            from ..sibling import Unhookers
            unh = Unhookers(ID, td, cfg["unhook"], env)
        sib = None
        if cfg.get("sibling"):
            from ..sibling import Sibling
            sib = Sibling(ID, cfg["sibling"], td, lambda _n: TraitDict(dict(td)), env)
        for i, op in enumerate(trace["ops"]):
            env.begin_op(i, op)
            for _, rec in recs:
                del rec[:]
            if sib is not None and i % 3 == 2:
                sib.poke(recs, i)
            if unh is not None:
                unh.begin_op(i)
            k = op["k"]
            before = dict(m)
            fired0 = env.fired["raise"]
            ret_m, val_exc, dict_exc = self.model_apply(m, op, kk, vk)
            ret, e = sut_dict_apply(td, op)
            if sib is not None:
                sib.after_main_op(k, i)
            env.end_op()
            injected = env.fired["raise"] > fired0
            if injected:
                m.clear()
                m.update(before)
            after = dict(td)
            en = exc_name(e)
            env.oracle_evals += 1
            overlap = self.overlap(op, before)
            if injected:
                if not isinstance(e, InjectedFault):
                    raise Violation("C06.fault-propagation",
                                    "%s: a validator raised an injected fault but the caller saw %r"
                                    % (k, e), i)
                expect_fail = True
            else:
                expect_fail = (val_exc is not None or dict_exc is not None)
                if expect_fail:
                    ok = [x for x in (val_exc, dict_exc) if x]
                    if en not in ok:
                        raise Violation("C06.exception-class",
                                        "%s on %r: expected %s, got %r"
                                        % (describe(op), before, " or ".join(ok), e), i)
                elif e is not None:
                    raise Violation("C06.exception-class",
                                    "%s on %r: dict succeeds, TraitDict raised %r"
                                    % (describe(op), before, e), i)
            if expect_fail:
                if after != before:
                    raise Violation("C06.failure-atomicity",
                                    "%s failed with %s but contents changed %r -> %r"
                                    % (describe(op), en, before, after), i)
                for kind, rec in recs:
                    if rec:
                        raise Violation("C06.event-on-failure",
                                        "%s failed with %s but a %s listener was notified"
                                        % (describe(op), en, kind), i)
                env.token(k, "fail", en, injected, overlap)
                continue
            if after != m:
                raise Violation("C06.contents", "%s on %r: dict gives %r, TraitDict holds %r"
                                % (describe(op), before, m, after), i)
            if k in ("ior_map", "ior_pairs"):
                if ret is not td:
                    raise Violation("C06.return", "|= did not return self", i)
            elif ret != ret_m or type(ret) is not type(ret_m):
                raise Violation("C06.return", "%s returned %r, dict returns %r"
                                % (describe(op), ret, ret_m), i)
            changed = (m != before)
            if unh is not None:
                unh.check(changed, describe(op), i)
            shape = None
            for kind, rec in recs:
                if changed and len(rec) != 1:
                    raise Violation("C06.event-count",
                                    "%s changed %r -> %r but a %s listener got %d events"
                                    % (describe(op), before, m, kind, len(rec)), i)
                for ev in rec:
                    if ev[0] is not td:
                        raise Violation("C06.event-object", "event names another dict", i)
                    try:
                        if kind == "raw":
                            if not (ev[4] is dict and ev[5] is dict and ev[6] is dict):
                                raise AssertionError("event parts are not dicts")
                            check_raw_event(before, m, ev[1], ev[2], ev[3])
                            shape = (min(len(ev[1]), 2), min(len(ev[2]), 2), min(len(ev[3]), 2))
                        else:
                            check_obs_event(before, m, ev[1], ev[2])
                    except AssertionError as a:
                        raise Violation(
                            "C06.raw-event-law" if kind == "raw" else "C06.observer-event-law",
                            "%s on %r -> %r: %s listener (position %d of %r) got %r: %s"
                            % (describe(op), before, m, kind,
                               [x[1] for x in recs].index(rec), cfg["listeners"],
                               ev[1:4] if kind == "raw" else ev[1:3], a), i)
                    env.nontrivial = env.nontrivial or changed
            env.token(k, "ok", changed, shape, overlap)
            env.cover(k, overlap, kk, vk)

    @staticmethod
    def overlap(op, before):
        """Key/overlap pattern of the op relative to the prior state."""
        if "key" in op:
            try:
                return "hit" if raw(op["key"]) in before else "miss"
            except TypeError:
                return "unhashable"
        if "pairs" in op:
            hit = miss = dup = coerc = 0
            seen = set()
            for a, b in op["pairs"]:
                if a["t"] == "bad":
                    continue
                kv = int(a["v"])
                if a["t"] == "str":
                    coerc = 1
                if kv in seen:
                    dup = 1
                seen.add(kv)
                if kv in before:
                    hit = 1
                else:
                    miss = 1
            return (hit, miss, dup, coerc, len(before) == 0)
        return ("empty" if not before else "nonempty")

    def simplify_op(self, op):
        if "iter_raise_at" in op:
            o = dict(op)
            del o["iter_raise_at"]
            o.pop("iter_exc", None)
            yield o
        if op.get("pairs"):
            for j in range(len(op["pairs"])):
                o = dict(op)
                o["pairs"] = op["pairs"][:j] + op["pairs"][j + 1:]
                if "bad_at" in o:
                    o["bad_at"] = min(o["bad_at"], len(o["pairs"]))
                yield o

    def simplify_trace(self, trace):
        cfg = trace["config"]
        if len(cfg["listeners"]) > 1:
            for j in range(len(cfg["listeners"])):
                t = dict(trace)
                t["config"] = dict(cfg, listeners=cfg["listeners"][:j] + cfg["listeners"][j + 1:])
                yield t
        for j in range(len(cfg["init"])):
            t = dict(trace)
            t["config"] = dict(cfg, init=cfg["init"][:j] + cfg["init"][j + 1:])
            yield t

    def coverage_report(self, cells):
        ops = {c[0] for c in cells}
        return {"measure": "(op, key/overlap pattern, key validator kind, value validator kind) cells",
                "cells_hit": len(cells), "ops_hit": sorted(ops)}

    def cleanup(self):
        CUR["env"] = None


def describe(op):
    k = op["k"]
    if "key" in op:
        return "%s(%r%s)" % (k, raw(op["key"]), (", %r" % (raw(op["v"]),)) if "v" in op else "")
    if "pairs" in op:
        return "%s(%r)" % (k, [(raw(a), raw(b)) for a, b in op["pairs"]])
    return k


PROP = Prop()
