"""C09 - observe registration is counted, reversible, failure-atomic and weak.

World: the graph world of C08 plus a registration table (handler -> count).
Ops: observe add/remove (text, equivalent spellings, expression objects), graph
mutations with probes, one removal too many, registration attempts with a
poison object placed at a position of the walk (placement faults), re-entrant
add/remove of registrations from inside handlers, deferred deliveries pending
across an unregistration, and a terminal phase: silent desynchronisation
followed by a removal, or dropping roots / handler owners / nodes with gc.
"""
import gc
import weakref

from ..core import Violation, HarnessError, stream, sut, exc_name
from ..core import deep
from ..sched import Sched
from .. import graph as G
from .c08 import expectation, check_calls, describe, show_event

ID = "C09"


class Owner:
    """Owner of a bound-method handler."""

    def __init__(self, hid, records, sched, env):
        self.hid = hid
        self._records = records
        self._sched = sched
        self._env = env

    def on_event(self, event):
        self._records.append({"h": self.hid, "origin": self._sched.cur_origin(), "ev": event})
        self._env.cur_handler = self.hid
        self._env.point("h:any", self.hid)
        self._env.point("h:" + self.hid, type(event).__name__)


def mk_handler(hid, records, sched, env):
    def handler(event):
        records.append({"h": hid, "origin": sched.cur_origin(), "ev": event})
        env.cur_handler = hid
        env.point("h:any", hid)
        env.point("h:" + hid, type(event).__name__)
    handler._hid = hid
    return handler


def hid_of(notifier):
    try:
        f = notifier.handler()
    except Exception:      # noqa: BLE001
        return "?"
    if f is None:
        return "dead"
    h = getattr(f, "_hid", None)
    if h is None:
        owner = getattr(f, "__self__", None)
        h = getattr(owner, "hid", "?")
    return h


def population(world):
    """Every observer-related notifier anywhere in the world:
    {(uid, where): sorted descriptors}."""
    from traits.observation._trait_event_notifier import TraitEventNotifier
    from traits.observation._observer_change_notifier import ObserverChangeNotifier
    from traits.trait_list_object import TraitList
    from traits.trait_dict_object import TraitDict
    from traits.trait_set_object import TraitSet
    kinds = (TraitEventNotifier, ObserverChangeNotifier)
    pop = {}

    def desc(lst):
        out = []
        for x in lst or ():
            if isinstance(x, kinds):
                out.append("%s:%s:%d" % (type(x).__name__, hid_of(x), getattr(x, "_ref_count", 1)))
        return sorted(out)

    def cont(uid, where, c):
        d = desc(getattr(c, "notifiers", ()))
        if d:
            pop[(uid, where)] = d

    for uid in sorted(world.by_uid):
        n = world.node(uid)
        if n is None:
            continue
        d = desc(n._notifiers(False))
        if d:
            pop[(uid, "<object>")] = d
        for name in sorted(n._instance_traits()):
            t = n._trait(name, 0)
            if t is None:
                continue
            d = desc(t._notifiers(False))
            if d:
                pop[(uid, name)] = d
        for name, v in sorted(n.__dict__.items()):
            if isinstance(v, (TraitList, TraitDict, TraitSet)):
                cont(uid, name + "[]", v)
                if name == "grid":
                    for j, row in enumerate(v):
                        if isinstance(row, TraitList):
                            cont(uid, "grid[%d][]" % j, row)
                if name == "shelf":
                    for key, row in sorted(v.items()):
                        if isinstance(row, TraitList):
                            cont(uid, "shelf[%s][]" % key, row)
    return pop


def pop_diff(a, b):
    keys = sorted(set(a) | set(b))
    out = []
    for k in keys:
        if a.get(k) != b.get(k):
            out.append("N%s.%s: %s -> %s" % (k[0], k[1], a.get(k, []), b.get(k, [])))
    return "; ".join(out[:4])


class PlainList(list):
    """Model marker: a plain Python list sitting where a TraitList is required."""
    __hash__ = object.__hash__


def walk_fails(expr, root, typed):
    """Does the registration walk over the model graph hit an object on which a
    non-optional observer cannot be applied?  (ValueError in traits.)"""
    for b in expr:
        objs = [root]
        for step in b:
            k, n, _ = step
            nxt = []
            for o in objs:
                if k == "t":
                    if not isinstance(o, G.MNode) or n not in o.traits():
                        return True
                    v = o.get(n)
                    if v is not G.UNSET and v is not None:
                        nxt.append(v)
                elif k == "opt":
                    if isinstance(o, G.MNode) and n in o.traits():
                        v = o.get(n)
                        if v is not G.UNSET and v is not None:
                            nxt.append(v)
                elif k == "items":
                    if isinstance(o, (G.MList, G.MDict, G.MSet)):
                        nxt.extend(G._elements(o))
                    elif typed:
                        return True
                    # generic 'items' is optional in all four alternatives
                elif k == "meta" and n == "kid":
                    if not isinstance(o, G.MNode):
                        return True
                    for n2 in ("child", "lazy"):
                        if n2 in o.traits():
                            v = o.get(n2)
                            if v is not G.UNSET and v is not None:
                                nxt.append(v)
                elif k in ("meta", "any"):
                    if not isinstance(o, G.MNode):
                        return True
            objs = nxt
    return False


class Prop:
    ID = ID
    LEVEL = "exploration"
    CHUNK = 40
    GC_EVERY = 5
    RUN_TIMEOUT = 10.0
    DIGEST_EVERY = 20
    RULE = ("seeded random histories (4-30 ops) over the C08 graph world with a registration "
            "table: observe add/remove for 1-3 handlers (function and bound-method handlers, "
            "dispatch same/ui, text / re-spelled text / expression objects), graph mutations "
            "each followed by probes of every pool object, removals with count 0, registration "
            "attempts with a poison object (node lacking the trait, plain list where a TraitList "
            "is required) placed at a generated position of the walk, re-entrant add/remove of "
            "registrations from inside handlers, deliveries pending across unregistration, and a "
            "terminal phase (silent desynchronisation + removal, or drop of roots / handler "
            "owners / nodes with gc); non-trivial = at least one registration reached count >= 1 "
            "and returned to 0 with the population check evaluated, or a failing registration / "
            "removal was checked for atomicity; distinct = distinct abstract traces")
    ASSUMPTIONS = ["level-aliasing histories (K1) are excluded by the model-side guard",
                   "poison objects are placed only while no registration exists (placing one under "
                   "a live registration is a user error with undefined outcome, not a registration "
                   "that raises)",
                   "a removal that raises must be atomic: population equals the pre-state or the "
                   "fully-removed state"]
    COMPONENTS = {"real": ["traits.observation (all), traits core, ctraits from the working tree",
                           "CPython gc/weakref"],
                  "stub": ["OS thread identity and UI queue (simulator) for dispatch='ui'"]}

    # ------------------------------------------------------------------ generation
    def gen(self, seed):
        c = stream(seed, "config")
        r = stream(seed, "ops")
        er = stream(seed, "env")
        npool = deep(c, [2, 3, 4], [5, 6])
        nh = deep(c, [1, 2, 2, 3], [4, 5])
        deferred = c.random() < 0.2
        handlers = []
        # swarm: some runs put several handlers on the same *container* in terminal
        # position and bias re-entrant self-removal onto container mutations (a
        # notifier leaving the list while the container is notifying its listeners)
        shared_container = c.random() < 0.2
        if shared_container:
            nh = max(nh, 2)
        for j in range(nh):
            expr = G.gen_expr(c)
            if shared_container:
                link = c.choice(["children", "children", "table", "group"])
                expr = [[["t", link, c.random() < 0.7], ["items", None, True]]]
                if j > 0:
                    expr = handlers[0]["expr"]
            elif j > 0 and c.random() < 0.4:
                expr = handlers[0]["expr"]       # several handlers on the same observables
            handlers.append({"id": "h%d" % j, "root": 0 if c.random() < 0.8 else c.randrange(npool),
                             "expr": expr, "form": "obj" if c.random() < 0.4 else "text",
                             "owner": c.random() < 0.35,
                             "dispatch": "ui" if (deferred and c.random() < 0.6) else "same"})
        nops = deep(c, [4, 8, 12, 18, 24, 30], [45, 60])
        nested_rate = c.choice([0.0, 0.1, 0.3, 0.6]) if not shared_container else 0.6
        gc_mode = c.choice(["explicit", "explicit", "explicit", "storm"])
        ops = []
        for _ in range(nops):
            x = r.random()
            if x < 0.22:
                op = {"k": "obs", "h": r.randrange(nh), "sp": r.randrange(4),
                      "alt": r.random() < 0.2}
            elif x < 0.42:
                op = {"k": "unobs", "h": r.randrange(nh), "sp": r.randrange(4),
                      "alt": r.random() < 0.2}
            elif x < 0.50:
                op = {"k": "poison_try", "h": r.randrange(nh),
                      "kind": r.choice(["valueless", "plainlist"]),
                      "pick": r.randrange(1000), "extra": r.randrange(3)}
            elif x < 0.53:
                op = {"k": "gc"}
            elif deferred and x < 0.60:
                op = r.choice([{"k": "thread", "name": r.choice(["main", "w1"])},
                               {"k": "deliver", "n": r.choice([1, 2, 99]), "i": r.randrange(6)}])
            elif x < 0.70:
                op = {"k": "probe", "o": r.randrange(npool + 2), "name": r.choice(["value", "label"])}
            else:
                op = G.gen_graph_op(r, npool)
                if r.random() < 0.04:
                    op = {"k": "redefine", "o": r.randrange(npool + 1),
                          "name": r.choice(["value", "child", "children", "children", "table",
                                            "group"])}
                elif r.random() < 0.05:
                    op = {"k": "del_attr", "o": r.randrange(npool + 1),
                      "name": r.choice(["child", "children", "children", "table", "group"])}
                if shared_container and r.random() < 0.5:
                    op["o"] = handlers[0]["root"]
            if op["k"] not in ("obs", "unobs", "poison_try", "gc", "thread", "deliver", "install_ui") \
                    and er.random() < nested_rate:
                op["env"] = [{"at": er.choice(["h:any", "h:any", "h:h%d" % er.randrange(nh)]),
                              "nth": er.choice([1, 1, 2]), "do": "nested",
                              "op": {"k": er.choice(["unobs", "unobs", "obs"]),
                                     "h": er.choice(["self", "self"] + list(range(nh))),
                                     "sp": 0}}]
            ops.append(op)
        # terminal phase
        x = c.random()
        term = []
        if x < 0.25:
            term = [{"k": "desync_remove", "h": c.randrange(nh), "pick": c.randrange(1000),
                     "poison": c.random() < 0.3}]
            if c.random() < 0.4:
                # the registration whose removal will fail matches SEVERAL observables on one
                # object ('*' or '+tag') in one branch and walks a link in the other: the
                # removal has unhooked a whole object by the time it fails
                T_ = True
                hh = handlers[term[0]["h"] % nh]
                # ('+kid' yields both object links of a node, hence several objects; '+tag'
                # and '*' yield several traits of each)
                hh["expr"] = [[["meta", "kid", c.random() < 0.7],
                               c.choice([["meta", "tag", T_], ["any", None, T_]])]]
                hh["form"] = "text"
        elif x < 0.6:
            for _ in range(c.randint(1, 3)):
                term.append(c.choice([{"k": "drop_owner", "h": c.randrange(nh)},
                                      {"k": "drop_root", "h": c.randrange(nh)},
                                      {"k": "drop", "o": c.randrange(npool + 2)},
                                      {"k": "drop", "o": c.randrange(npool + 2)}]))
            term.append({"k": "gc_check"})
            if c.random() < 0.5:
                # the owner of a registered bound-method handler dies and a NEW owner of
                # the same class (often at the very address just freed) registers
                term.append({"k": "reincarnate", "h": c.randrange(nh)})
            for _ in range(c.randint(1, 4)):
                term.append(G.gen_graph_op(c, npool))
        # the UI toolkit (and with it the UI handler) may be initialised after the
        # first registrations: until then "ui" handlers run where the change occurs
        late_ui = deferred and c.random() < 0.35
        if late_ui:
            ops.insert(c.randrange(len(ops) + 1), {"k": "install_ui"})
        return {"prop": ID, "seed": seed,
                "config": {"npool": npool, "handlers": handlers, "gc_mode": gc_mode,
                           "late_ui": late_ui},
                "ops": ops + term}

    # ------------------------------------------------------------------ execution
    def execute(self, trace, env):
        from traits.observation import api as oapi
        from traits.observation.exceptions import NotifierNotFound
        cfg = trace["config"]
        self._pushed = False
        world = G.World(env, cfg["npool"])
        world.del_enabled = True
        world.redefine_enabled = True
        self._world = world
        sched = Sched(env)
        self._sched = sched
        sched.install(ui=not cfg.get("late_ui"))
        self._gc_thresh = gc.get_threshold()
        if cfg.get("gc_mode") == "storm":
            # cyclic GC at every opportunity (on CPython 3.12 collections happen only on
            # the eval breaker, i.e. at byte-code boundaries: this visits all of them)
            # (young generations at every opportunity; the oldest one is collected by hand at
            # the end of every eighth op: when the interpreter would start a full collection of its
            # own depends on how large the process heap has grown, i.e. on earlier runs)
            gc.collect()
            gc.enable()
            gc.set_threshold(1, 1, 1 << 30)
            env.probe("gc-storm-run")
        routed = []
        oapi.push_exception_handler(lambda ev: routed.append(ev), reraise_exceptions=False)
        self._pushed = True
        S = self.S = State()
        S.world, S.sched, S.env, S.NotifierNotFound = world, sched, env, NotifierNotFound
        S.records = []
        S.handlers = []
        for spec in cfg["handlers"]:
            h = HandlerState(spec)
            if spec.get("owner"):
                h.owner = Owner(h.id, S.records, sched, env)
                h.fn = h.owner.on_event
            else:
                h.fn = mk_handler(h.id, S.records, sched, env)
            h.root_uid = world.mnodes[world.idx(spec["root"])].uid
            S.handlers.append(h)
        S.pending = {}
        S.origin_ctr = 0
        S.stats = {"returned_to_zero": 0, "atomicity_checked": 0, "expected_call": 0}
        S.tainted = False
        env.actions["nested"] = lambda ev: self.nested(ev["op"])
        ops = trace["ops"]
        for i, op in enumerate(ops):
            env.begin_op(i, op)
            S.step = i
            k = op["k"]
            if k == "thread":
                sched.switch(op["name"])
            elif k == "install_ui":
                sched.install_ui()
                env.probe("ui-handler-installed-late")
            elif k == "deliver":
                for _ in range(min(op["n"], 100)):
                    if not sched.deliver(op.get("i", 0)):
                        break
                self.settle(i)
            elif k in ("obs", "unobs"):
                self.do_register(op, i, nested=False)
            elif k == "poison_try":
                self.poison_try(op, i)
            elif k == "desync_remove":
                self.desync_remove(op, i)
            elif k in ("drop_owner", "drop_root", "gc_check", "reincarnate"):
                self.weakness(op, i)
            else:
                self.graph_step(op, i)
            if cfg.get("gc_mode") == "storm" and i % 8 == 7:
                gc.collect()        # (the oldest generation: by hand, now and then)
            env.end_op()
            env.token(k, op.get("op", {}).get("k") if isinstance(op.get("op"), dict) else None,
                      tuple(h.count for h in S.handlers))
        env.begin_op(len(ops), {"k": "drain"})
        ok = sched.drain()
        env.end_op()
        if not ok or sched.delivered != sched.enqueued:
            raise Violation("C09.drain", "deferred queue: %d enqueued, %d delivered"
                            % (sched.enqueued, sched.delivered), None)
        self.settle(len(ops), final=True)
        if sched.escaped:
            raise Violation("C09.handler-exception", "a deferred handler call failed: %r"
                            % (sched.escaped[0][2],), None)
        if routed:
            raise Violation("C09.handler-exception",
                            "an exception was routed to the observe exception handler", None)
        env.nontrivial = (S.stats["returned_to_zero"] > 0 or S.stats["atomicity_checked"] > 0)
        for k2, v in S.stats.items():
            env.probe(k2, v)

    # registration ---------------------------------------------------------------
    def render(self, h, sp):
        if h.spec["form"] == "obj":
            return G.render_obj(h.expr)
        text = G.render_text(h.expr)
        has_star = "*" in text
        if sp == 1:
            return "  " + text.replace(".", " . ").replace(":", " : ").replace(",", " , ") + " "
        if sp == 2 and not has_star and len(h.expr) == 1:
            return "[" + text + "]"
        if sp == 3:
            from traits.observation.api import parse
            return parse(text)
        return text

    def live(self):
        return [h for h in self.S.handlers if h.count > 0 and not h.dead and not h.loose]

    def do_register(self, op, i, nested):
        S = self.S
        h = S.handlers[op["h"] % len(S.handlers)]
        if h.dead or h.loose or S.tainted:
            return
        world = S.world
        root = world.node(h.root_uid)
        rootm = world.model(h.root_uid)
        remove = (op["k"] == "unobs")
        if not remove and G.match(h.expr, rootm)[2]:
            S.env.probe("k1-registration-skipped")
            return
        dispatch = h.spec["dispatch"]
        if op.get("alt"):
            dispatch = "ui" if dispatch == "same" else "same"
        before = population(world)
        _, e = sut(root.observe, h.fn, self.render(h, op.get("sp", 0)),
                   remove=remove, dispatch=dispatch)
        after = population(world)
        S.env.oracle_evals += 1
        if remove and h.counts[dispatch] == 0:
            # one removal too many
            if not isinstance(e, S.NotifierNotFound):
                raise Violation("C09.extra-removal",
                                "removing %s once more than it was registered: expected "
                                "NotifierNotFound, got %r" % (h.id, e), i)
            if after != before:
                raise Violation("C09.extra-removal-atomic",
                                "a removal that raised NotifierNotFound changed notifier "
                                "populations: %s" % pop_diff(before, after), i)
            S.stats["atomicity_checked"] += 1
            S.env.cover("extra-removal", len(h.expr[0]))
            return
        if e is not None:
            raise Violation("C09.registration-raised",
                            "%s of %s (%s) raised %r on a graph where every object fits the "
                            "expression" % ("removal" if remove else "registration", h.id,
                                            G.render_text(h.expr), e), i)
        h.counts[dispatch] += -1 if remove else 1
        h.changed_in_op = True
        world.pinned_uids = {x.root_uid for x in self.live()}
        if not nested and not getattr(S, "weak_phase", False) \
                and all(x.count == 0 for x in S.handlers):
            if after:
                raise Violation("C09.not-reversible",
                                "every registration has been removed again but notifiers remain: %s"
                                % pop_diff({}, after), i)
            S.stats["returned_to_zero"] += 1
            S.env.cover("returned-to-zero", len(S.handlers))

    def nested(self, op):
        """Re-entrant add/remove of a registration from inside a handler."""
        S = self.S
        if op["h"] == "self":
            cur = getattr(S.env, "cur_handler", None)
            idx = [j for j, x in enumerate(S.handlers) if x.id == cur]
            if not idx:
                return
            op = dict(op, h=idx[0])
        h = S.handlers[op["h"] % len(S.handlers)]
        if op["k"] == "unobs" and h.counts[h.spec["dispatch"]] == 0:
            return
        infl = getattr(S, "inflight", None)
        if infl and not h.dead and not h.loose:
            # non-conflicting re-entrancy only: the registration being added or
            # removed must not be one whose walk the in-flight change re-hooks
            if infl & G.nonterminal_keys(h.expr, S.world.model(h.root_uid)):
                S.env.probe("nested-conflicting-skipped")
                return
        S.env.probe("nested-" + op["k"])
        self.do_register(op, S.step, nested=True)

    # graph ops with probes --------------------------------------------------------
    def graph_step(self, op, i):
        S = self.S
        world = S.world
        k = op["k"]
        if S.tainted and k not in ("gc", "drop"):
            return
        self.one(op, i)
        if k not in ("gc", "drop", "probe") and self.live():
            pre = {h.id: G.match(h.expr, world.model(h.root_uid))[0] for h in self.live()}
            for j in range(len(world.mnodes)):
                for name in ("value", "label"):
                    self.one({"k": "probe", "o": j, "name": name}, i, probe=True, pre=pre)

    def one(self, op, i, probe=False, pre=None):
        S = self.S
        world, sched = S.world, S.sched
        k = op["k"]
        live = self.live()
        if not probe and live and k not in ("gc", "drop", "probe"):
            dry = world.dry_clone()
            dry.apply(op, i)
            for h in live:
                if G.match(h.expr, dry.model(h.root_uid))[2]:
                    S.env.probe("k1-guard-skip")
                    return
        S.origin_ctr += 1
        origin = S.origin_ctr
        sched.now = origin
        for h in S.handlers:
            h.count_before = h.count
            h.changed_in_op = False
        S.inflight = G.inflight_keys(world, op) if k not in ("gc", "drop") else set()
        try:
            changes = world.apply(op, i)
        finally:
            sched.now = None
            S.inflight = None
        if not probe and k not in ("gc", "drop"):
            t = world.idx(op.get("o", 0))
            world.check_structure(i, only=[(world.nodes[t], world.mnodes[t])])
        if pre is None:
            pre = {h.id: G.match(h.expr, world.model(h.root_uid))[0]
                   for h in S.handlers if not h.dead and (h.count_before > 0 or h.count > 0)}
        for ch in changes:
            if ch.kind == "read":
                continue
            for h in S.handlers:
                S.env.oracle_evals += 1
                if h.dead:
                    exp = None
                    mode = "strict"
                elif h.changed_in_op or h.loose:
                    exp = expectation(ch, pre.get(h.id, ())) if h.id in pre else None
                    mode = "loose"           # (un)registered during this very notification
                elif h.count > 0:
                    exp = expectation(ch, pre[h.id]) if h.id in pre else expectation(
                        ch, G.match(h.expr, world.model(h.root_uid))[0])
                    mode = "strict"
                else:
                    exp = None
                    mode = "strict"
                if exp is not None:
                    S.stats["expected_call"] += 1
                S.pending[(origin, h.id)] = (exp, ch, i, describe(op, world), probe, mode,
                                             h.multiplicity)
        self.settle(i)

    def settle(self, step, final=False):
        S = self.S
        if not S.records and not S.pending:
            return
        queued = {e["origin"] for e in S.sched.queue}
        by = {}
        for rec in S.records:
            by.setdefault((rec["origin"], rec["h"]), []).append(rec)
        keep = []
        for key in sorted(set(S.pending) | set(by)):
            origin, hid = key
            if origin in queued and not final:
                keep.extend(by.get(key, ()))
                continue
            recs = by.get(key, [])
            item = S.pending.pop(key, None)
            if item is None:
                if recs and not S.tainted:
                    raise Violation("C09.spurious-call",
                                    "handler %s called (%s) outside any change matched by a live "
                                    "registration" % (hid, show_event(recs[0]["ev"])), step)
                continue
            exp, ch, opi, desc, probe, mode, mult = item
            if mode == "loose":
                if len(recs) > 2:
                    raise Violation("C09.call-count", "%s: handler %s called %d times"
                                    % (desc, hid, len(recs)), opi)
                continue
            try:
                if exp is None or mult <= 1:
                    check_calls(hid, exp, ch, recs, opi, desc, probe)
                else:
                    # registered under several dispatch modes: one call per registration key
                    if len(recs) > mult or (exp[0] == "must" and len(recs) != mult):
                        raise Violation("C09.call-count",
                                        "%s: handler %s is registered under %d dispatch modes "
                                        "but was called %d times" % (desc, hid, mult, len(recs)), opi)
                    for rec in recs:
                        check_calls(hid, exp, ch, [rec], opi, desc, probe)
            except Violation as v:
                raise Violation(v.check_id.replace("C08.", "C09."), v.msg, v.step)
        S.records[:] = keep

    # placement faults -----------------------------------------------------------------
    def poison_try(self, op, i):
        """With no registration anywhere: place a poison object at a position
        the registration walk of handler h will (or will not) reach, attempt
        the registration, check rollback, restore."""
        S = self.S
        world = S.world
        if S.tainted or getattr(S, "weak_phase", False) or any(h.count for h in S.handlers):
            return
        h = S.handlers[op["h"] % len(S.handlers)]
        if h.dead or h.loose:
            return
        rootm = world.model(h.root_uid)
        root = world.node(h.root_uid)
        if G.match(h.expr, rootm)[2]:
            return
        # candidate positions: link slots (owner, name) on the matched walk
        slots = []
        for b in h.expr:
            objs = [rootm]
            for step in b:
                nxt = []
                for o in objs:
                    if isinstance(o, G.MNode) and step[0] == "t" and step[1] in ("child", "lazy"):
                        slots.append((o, step[1]))
                        v = o.get(step[1])
                        if v is not G.UNSET and v is not None:
                            nxt.append(v)
                    elif isinstance(o, G.MNode) and step[0] == "t" and step[1] == "children":
                        slots.append((o, "children"))
                        v = o.get("children")
                        if v is not G.UNSET:
                            nxt.append(v)
                    elif step[0] == "items" and isinstance(o, (G.MList, G.MDict, G.MSet)):
                        nxt.extend(G._elements(o))
                    elif isinstance(o, G.MNode) and step[0] == "t" and step[1] in o.traits():
                        v = o.get(step[1])
                        if v is not G.UNSET and v is not None and not isinstance(v, (int, str)):
                            nxt.append(v)
                objs = nxt
        if not slots:
            return
        owner_m, name = slots[op["pick"] % len(slots)]
        owner = world.node(owner_m.uid)
        if owner is None or not owner_m.full:
            return
        kind = op["kind"]
        saved_model = owner_m.get(name)
        saved_sut = owner.__dict__.get(name, G.UNSET)
        # ---- place the poison (no registrations exist: nothing is notified)
        if kind == "valueless":
            pn, pm = world.new_node("ValuelessNode", pooled=False)
            if name in ("child", "lazy"):
                setattr(owner, name, pn)
                setattr(owner_m, name, pm)
            else:
                cur = list(saved_model) if saved_model is not G.UNSET else []
                pos = op["extra"] % (len(cur) + 1)
                cur.insert(pos, pm)
                owner.children = [world.node(x.uid) for x in cur]
                owner_m.children = G.MList(cur)
        else:
            ln, lm = world.new_node("LooseNode", pooled=False)
            inner = [world.new_node("Node", pooled=False) for _ in range(op["extra"])]
            ln.children = [x[0] for x in inner]
            lm.children = PlainList(x[1] for x in inner)
            if name in ("child", "lazy"):
                setattr(owner, name, ln)
                setattr(owner_m, name, lm)
            else:
                cur = list(saved_model) if saved_model is not G.UNSET else []
                pos = op["extra"] % (len(cur) + 1)
                cur.insert(pos, lm)
                owner.children = [world.node(x.uid) for x in cur]
                owner_m.children = G.MList(cur)
        typed = h.spec["form"] == "obj"
        fails = walk_fails(h.expr, rootm, typed)
        before = population(world)
        if before:
            raise Violation("C09.not-reversible", "notifiers present although nothing is "
                            "registered: %s" % pop_diff({}, before), i)
        _, e = sut(root.observe, h.fn, self.render(h, 0), dispatch=h.spec["dispatch"])
        after = population(world)
        S.env.oracle_evals += 1
        if fails:
            if e is None:
                raise Violation("C09.poison-accepted",
                                "registration of %s succeeded although the walk meets an object "
                                "that lacks the trait / is not the required container"
                                % G.render_text(h.expr), i)
            if after != before:
                raise Violation("C09.rollback-population",
                                "registration of '%s' raised %s but left notifiers attached: %s"
                                % (G.render_text(h.expr), exc_name(e), pop_diff(before, after)), i)
            S.stats["atomicity_checked"] += 1
            S.env.probe("registration-failed-and-rolled-back")
            S.env.cover("poison", kind, name, len(after) == 0)
        else:
            if e is not None:
                raise Violation("C09.registration-raised",
                                "registration of '%s' raised %r although the walk never applies a "
                                "non-optional observer to the odd object"
                                % (G.render_text(h.expr), e), i)
            _, e = sut(root.observe, h.fn, self.render(h, 0), remove=True,
                       dispatch=h.spec["dispatch"])
            if e is not None:
                raise Violation("C09.registration-raised", "removal right after registration "
                                "raised %r" % (e,), i)
            after = population(world)
            if after:
                raise Violation("C09.not-reversible",
                                "add + remove left notifiers: %s" % pop_diff({}, after), i)
            S.stats["returned_to_zero"] += 1
        # ---- restore the slot
        if saved_sut is G.UNSET:
            if name in ("child", "lazy"):
                setattr(owner, name, None)
                setattr(owner_m, name, None)
            else:
                owner.children = []
                owner_m.children = G.MList()
        else:
            if name in ("child", "lazy"):
                setattr(owner, name, world.n_of(saved_model))
                setattr(owner_m, name, saved_model)
            else:
                owner.children = [world.n_of(x) for x in saved_model]
                owner_m.children = G.MList(saved_model)

    # desynchronised removal ---------------------------------------------------------------
    def desync_remove(self, op, i):
        """Silently (trait_setq) replace a link that a live registration walks,
        then remove the registration: whatever happens must be atomic."""
        S = self.S
        world = S.world
        h = S.handlers[op["h"] % len(S.handlers)]
        if S.tainted or h.dead or h.loose or h.count != 1 or S.sched.queue:
            return
        rootm = world.model(h.root_uid)
        root = world.node(h.root_uid)
        # candidate link slots on the walk
        slots = []
        for b in h.expr:
            objs = [rootm]
            for step in b[:-1]:
                nxt = []
                for o in objs:
                    if isinstance(o, G.MNode) and step[0] == "t" and step[1] in ("child", "lazy") \
                            and o.full:
                        slots.append((o, step[1]))
                    if isinstance(o, G.MNode) and step[0] == "meta" and step[1] == "kid" and o.full:
                        slots.extend([(o, "child"), (o, "lazy")])
                        for n2 in ("child", "lazy"):
                            v = o.get(n2)
                            if v is not G.UNSET and v is not None:
                                nxt.append(v)
                    if isinstance(o, G.MNode) and step[0] in ("t", "opt") and step[1] in o.traits():
                        v = o.get(step[1])
                        if v is not G.UNSET and v is not None and not isinstance(v, (int, str)):
                            nxt.append(v)
                    elif step[0] == "items" and isinstance(o, (G.MList, G.MDict, G.MSet)):
                        nxt.extend(G._elements(o))
                objs = nxt
        if not slots:
            return
        owner_m, name = slots[op["pick"] % len(slots)]
        owner = world.node(owner_m.uid)
        if owner is None:
            return
        if op.get("poison"):
            new, newm = world.new_node("ValuelessNode", pooled=False)
        else:
            new, newm = world.new_node("Node", pooled=False)
        owner.trait_setq(**{name: new})
        setattr(owner_m, name, newm)
        S.tainted = True          # hooks and graph are now out of step by construction
        before = population(world)
        live_dispatch = "same" if h.counts["same"] else "ui"
        _, e = sut(root.observe, h.fn, self.render(h, 0), remove=True, dispatch=live_dispatch)
        after = population(world)
        S.env.oracle_evals += 1
        if e is not None:
            S.env.probe("removal-raised-after-desync")
            if after != before:
                # fully removed is the other acceptable outcome
                mine = [k for k, v in after.items() if any((":%s:" % h.id) in d for d in v)]
                if mine:
                    raise Violation("C09.removal-atomic",
                                    "a removal that raised %s left a mixture: %s"
                                    % (exc_name(e), pop_diff(before, after)), i)
            S.stats["atomicity_checked"] += 1
            S.env.cover("desync-removal-raised", exc_name(e))
        else:
            S.env.cover("desync-removal-ok", 0)

    # weakness ------------------------------------------------------------------------------
    def weakness(self, op, i):
        S = self.S
        world = S.world
        k = op["k"]
        if S.sched.queue:
            S.sched.drain()
            self.settle(i)
        if k == "drop_owner":
            h = S.handlers[op["h"] % len(S.handlers)]
            if h.owner is None or h.dead:
                return
            S.owner_refs = getattr(S, "owner_refs", [])
            S.owner_refs.append((h, weakref.ref(h.owner)))
            h.owner = None
            h.fn = None
            h.loose = True
            S.weak_phase = True
            S.env.probe("owner-dropped")
        elif k == "reincarnate":
            h = S.handlers[op["h"] % len(S.handlers)]
            if h.owner is None or h.dead or h.loose or h.count == 0 or S.tainted:
                return
            root = world.node(h.root_uid)
            if root is None or G.match(h.expr, world.model(h.root_uid))[2]:
                return
            S.weak_phase = True
            S.records[:] = [r_ for r_ in S.records if r_["h"] != h.id]
            gc.collect()
            old_id = id(h.owner)
            N = 512
            cands = [None] * N            # (allocated before the owner is released)
            args = (h.id, S.records, S.sched, S.env)
            wr = weakref.ref(h.owner)
            h.fn = None
            h.owner = None                # the old owner is gone (reference counting); its
            #                               registration stays behind as an inert entry
            for q in range(N):            # tight loop: nothing else allocates in between
                cands[q] = Owner(*args)
                if id(cands[q]) == old_id:
                    break
            # a new owner - at the address just freed if the allocator hands it out again
            # (it does, among the next few objects of that size)
            if wr() is not None:
                S.env.probe("old-owner-still-referenced")
            same = [x for x in cands if x is not None and id(x) == old_id]
            h.owner = same[0] if same else cands[0]
            S.env.probe("owner-reincarnated-at-same-address" if same
                        else "owner-reincarnated-elsewhere")
            del cands, same
            h.fn = h.owner.on_event
            h.counts = {"same": 0, "ui": 0}
            dispatch = h.spec["dispatch"]
            _, e = sut(root.observe, h.fn, self.render(h, 0), dispatch=dispatch)
            if e is not None:
                raise Violation("C09.registration-raised",
                                "registration of a new owner's method raised %r" % (e,), i)
            h.counts[dispatch] = 1
            S.env.probe("owner-reincarnated")
        elif k == "drop_root":
            h = S.handlers[op["h"] % len(S.handlers)]
            if h.dead or h.loose:
                return
            # every registration on that root dies with it
            uid = h.root_uid
            idx = [j for j, m in enumerate(world.mnodes) if m.uid == uid]
            if not idx or len(world.mnodes) <= 1:
                return
            for x in S.handlers:
                if x.root_uid == uid:
                    x.loose = True
            S.weak_phase = True
            world.pinned_uids = {x.root_uid for x in self.live()}
            m = world.mnodes.pop(idx[0])
            n = world.nodes.pop(idx[0])
            world.by_uid[uid][0] = weakref.ref(n)
            world.dropped.append((weakref.ref(n), m))
            del n
            S.env.probe("root-dropped")
        elif k == "gc_check":
            S.records[:] = []
            S.pending.clear()
            gc.collect()
            # model: strong-reference walk from the harness' roots
            reach = set()
            todo = list(world.mnodes)
            while todo:
                m = todo.pop()
                if id(m) in reach or not isinstance(m, G.MNode):
                    continue
                reach.add(id(m))
                for name in ("child", "lazy", "extra"):
                    v = m.get(name)
                    if isinstance(v, G.MNode):
                        todo.append(v)
                for name in ("children", "group"):
                    v = m.get(name)
                    if v is not G.UNSET:
                        todo.extend(v)
                if m.table is not G.UNSET:
                    todo.extend(m.table.values())
                if m.grid is not G.UNSET:
                    for row in m.grid:
                        todo.extend(row)
                if m.shelf is not G.UNSET:
                    for row in m.shelf.values():
                        todo.extend(row)
            for ref, m in world.dropped:
                alive = ref() is not None
                S.env.oracle_evals += 1
                if alive and id(m) not in reach:
                    raise Violation("C09.keeps-observed-alive",
                                    "N%d was dropped and is unreachable from every live object, "
                                    "but is still alive after gc (registrations must not keep "
                                    "observed objects alive)" % m.uid, i)
                S.env.cover("dropped-node", alive)
            for h, ref in getattr(S, "owner_refs", ()):
                S.env.oracle_evals += 1
                if ref() is not None:
                    raise Violation("C09.keeps-owner-alive",
                                    "the owner of bound-method handler %s is still alive after "
                                    "being dropped and gc" % h.id, i)
                h.dead = True
                S.env.cover("dropped-owner", False)
            for h in S.handlers:
                if h.loose and not h.dead and world.node(h.root_uid) is None:
                    h.dead = True
            S.stats["atomicity_checked"] += 0

    def cleanup(self):
        from traits.observation import api as oapi
        if getattr(self, "_gc_thresh", None) is not None:
            gc.set_threshold(*self._gc_thresh)
            gc.disable()
            self._gc_thresh = None
        s = getattr(self, "_sched", None)
        if s is not None:
            s.uninstall()
            self._sched = None
        if getattr(self, "_pushed", False):
            oapi.pop_exception_handler()
            self._pushed = False
        w = getattr(self, "_world", None)
        if w is not None:
            w.close()
            self._world = None
        self.S = None

    # ------------------------------------------------------------------ shrinking
    def simplify_trace(self, trace):
        cfg = trace["config"]
        hs = cfg["handlers"]
        for j, h in enumerate(hs):
            if len(h["expr"]) > 1:
                for b in range(len(h["expr"])):
                    t = dict(trace)
                    h2 = dict(h, expr=h["expr"][:b] + h["expr"][b + 1:])
                    t["config"] = dict(cfg, handlers=hs[:j] + [h2] + hs[j + 1:])
                    yield t
            if h["dispatch"] != "same":
                t = dict(trace)
                t["config"] = dict(cfg, handlers=hs[:j] + [dict(h, dispatch="same")] + hs[j + 1:])
                yield t
            if h.get("owner"):
                t = dict(trace)
                t["config"] = dict(cfg, handlers=hs[:j] + [dict(h, owner=False)] + hs[j + 1:])
                yield t

    def coverage_report(self, cells):
        return {"measure": "(check kind, detail) cells: returned-to-zero, extra-removal, poison "
                           "kind x slot x rollback, desync removal outcome, dropped node/owner",
                "cells_hit": len(cells), "cells": sorted(map(repr, cells))[:40]}


class State:
    pass


class HandlerState:
    @property
    def count(self):
        return self.counts["same"] + self.counts["ui"]

    @property
    def multiplicity(self):
        """Distinct (handler, expression, dispatch) registrations that are live."""
        return (self.counts["same"] > 0) + (self.counts["ui"] > 0)

    def __init__(self, spec):
        self.id = spec["id"]
        self.spec = spec
        self.expr = spec["expr"]
        self.root_uid = None
        self.fn = None
        self.owner = None
        self.counts = {"same": 0, "ui": 0}     # registrations per dispatch mode
        self.count_before = 0
        self.changed_in_op = False
        self.dead = False
        self.loose = False        # owner/root released but not yet known to be collected


PROP = Prop()
