"""C12 - observed/cached properties are never stale and announce dependency
changes.

World: the graph world with PNode objects (simtraits.zoo12) declaring cached
and uncached Property(observe=...) over scalar, Instance, list/dict/set item
and two-level dependencies.  Ops: dependency mutations (shared and repeated
items), property reads at generated points, pickle restart and deepcopy fork
of the whole object graph with the history continuing on the copy, gc.
Getters are callback points that count their runs.
"""
import copy
import gc
import pickle

from ..core import Violation, HarnessError, stream, sut, mix
from ..core import deep
from .. import graph as G
from .. import zoo12 as Z

ID = "C12"


class Prop:
    ID = ID
    LEVEL = "exploration"
    CHUNK = 40
    GC_EVERY = 5
    RUN_TIMEOUT = 10.0
    DIGEST_EVERY = 20
    RULE = ("seeded random histories (4-30 ops) on 2-5 PNode objects with ten observed "
            "properties (seven cached, one over a Dict of Lists; two are declared in a base class and only their getters are "
            "overridden, uncached->cached and cached->uncached): link/list/dict/set dependency mutations incl. shared and "
            "repeated nodes, slice assignments that keep / repeat current items (same object removed "
            "and added in one event with a different number of occurrences), equal-list "
            "reassignment, value changes, class-level _value_changed/_child_changed handlers that "
            "read the cached properties while a change or a restore is in flight, property reads of a "
            "generated subset after each op (so that caches survive across several changes), "
            "pickle restart / deepcopy fork of the whole graph continuing on the copy, gc; "
            "handlers (observe and on_trait_change) on a generated subset of properties; "
            "non-trivial = some read followed a change that altered the recomputed value and a "
            "cached value was reused at least once; distinct = distinct abstract traces (op kind, "
            "which properties changed, which were read)")
    ASSUMPTIONS = ["reads happen at quiescent points (not from inside a handler that runs before "
                   "the invalidating observer: conflicting re-entrancy, observation O2)",
                   "level-aliasing graphs for the two-link dependencies are excluded (K1)",
                   "fork = deep clone of the whole graph in traits' copy mode 'deep' (plain "
                   "deepcopy shares Dict items by reference: observation O3 in DESIGN.md)",
                   "'at most once between two relevant changes' is checked per mutating op: a "
                   "cached getter may run at most once per (object, property) between two ops; "
                   "runs made by class-level handlers while a change is being delivered (before "
                   "the invalidating observer ran) are counted apart"]

    def gen(self, seed):
        c = stream(seed, "config")
        r = stream(seed, "ops")
        npool = deep(c, [2, 3, 4, 5], [6, 7])
        nops = deep(c, [4, 8, 12, 18, 24, 30], [45, 60])
        read_mod = c.choice([1, 2, 3, 5])        # read ~1/read_mod of the (object, property) pairs per op
        listen = [[c.random() < 0.5 for _ in Z.PROP_NAMES] for _ in range(npool)]
        listen_mech = c.choice(["observe", "otc", "both"])
        restart_rate = c.choice([0.0, 0.0, 0.05, 0.12])
        ops = []
        for _ in range(nops):
            x = r.random()
            if x < restart_rate:
                op = r.choice([{"k": "restart", "proto": r.choice([2, 3, 4, 5])},
                               {"k": "fork"}])
            elif x < restart_rate + 0.03:
                op = {"k": "gc"}
            elif x < restart_rate + 0.28:
                op = {"k": "probe", "o": r.randrange(npool + 2), "name": "value"}
            else:
                op = self.gen_dep_op(r, npool)
            op["rd"] = r.randrange(1 << 16)
            ops.append(op)
        return {"prop": ID, "seed": seed,
                "config": {"npool": npool, "read_mod": read_mod, "listen": listen,
                           "listen_mech": listen_mech,
                           # objects constructed with value=...: the class-level handlers read
                           # the cached properties (and thereby the container defaults) while
                           # the object is under construction
                           "ctor_value": c.choice([None, 5])},
                "ops": ops}

    @staticmethod
    def gen_dep_op(r, npool):
        if r.random() < 0.05:
            # 'del node.trait': the dependency falls back to its default
            return {"k": "del_attr", "o": r.randrange(npool + 1),
                    "name": r.choice(["child", "children", "children", "table", "group",
                                       "shelf"])}
        for _ in range(20):
            op = G.gen_graph_op(r, npool)
            if op["k"] in ("set_child", "set_children", "children_same", "list", "set_table",
                           "dict", "set_group", "set", "read", "set_shelf", "shelf_outer",
                           "shelf_inner"):
                return op
        return {"k": "set_child", "o": 0, "v": {"n": 1}}

    # ------------------------------------------------------------------ execution
    def execute(self, trace, env):
        from traits.observation import api as oapi
        cfg = trace["config"]
        self._pushed = False
        world = G.World(env, cfg["npool"], classes="PNode", ctor_value=cfg.get("ctor_value"))
        world.del_enabled = True
        world.lazy_enabled = False     # pickling materialises defaults: no self-propagating default
        self._world = world
        routed = []
        oapi.push_exception_handler(lambda ev: routed.append(ev), reraise_exceptions=False)
        from traits.api import push_exception_handler
        legacy = []
        push_exception_handler(lambda o, n, old, new: legacy.append(n), reraise_exceptions=False)
        self._pushed = True
        runs = {}            # (uid, prop) -> getter runs since the last mutating op
        events = {}          # (uid, prop) -> list of new values reported since the op began
        stats = {"changed_then_read": 0, "cache_reused": 0}
        cached_valid = set()  # (uid, prop) read since the last change of its model value

        def on_getter(obj, name):
            key = (obj.uid, name)
            runs[key] = runs.get(key, 0) + 1
            env.point("getter:" + name, obj.uid)
        world.on_getter = on_getter

        def attach():
            for j, (n, m) in enumerate(zip(world.nodes, world.mnodes)):
                flags = cfg["listen"][j] if j < len(cfg["listen"]) else [False] * len(Z.PROP_NAMES)
                names = [p for p, f in zip(Z.PROP_NAMES, flags) if f]
                m_listen[m.uid] = set(names)
                for p in names:
                    if cfg["listen_mech"] in ("observe", "both"):
                        n.observe(mk_obs(events, env), p)
                    if cfg["listen_mech"] in ("otc", "both"):
                        n.on_trait_change(mk_otc(events, env), p)
        m_listen = {}
        attach()
        for i, op in enumerate(trace["ops"]):
            env.begin_op(i, op)
            k = op["k"]
            if k == "restart" or k == "fork":
                uids = world.alive_uids()
                objs = [world.node(u) for u in uids]
                if k == "restart":
                    new, e = sut(lambda: pickle.loads(pickle.dumps(objs, op["proto"])))
                else:
                    # clone with traits' copy mode 'deep' (what clone_traits(copy="deep")
                    # selects): a plain deepcopy copies Dict items by reference, because
                    # Dict - unlike List/Set/Instance - carries no copy="deep" metadata,
                    # and the copy would then depend on objects outside the new world
                    new, e = sut(copy.deepcopy, objs, {"traits_copy_mode": "deep"})
                if e is not None:
                    raise Violation("C12.restart", "%s of the object graph raised %r" % (k, e), i)
                del objs
                world.rebind(dict(zip(uids, new)))
                runs.clear()
                cached_valid.clear()
                attach()
                env.token(k)
            elif k == "gc":
                gc.collect()
            else:
                # level-aliasing guard (K1) for the two-link dependency expressions
                dry = world.dry_clone()
                dry.apply(op, i)
                skip = False
                for m in dry.by_uid.values():
                    m = m[1]
                    if m.cls != "PNode":
                        continue
                    for p in ("two", "deep"):
                        if G.match(Z.PROPS[p][1], m)[2]:
                            skip = True
                if skip:
                    env.probe("k1-guard-skip")
                    env.end_op()
                    continue
                before = self.model_all(world)
                runs.clear()
                events.clear()
                changes = world.apply(op, i)
                # getter runs made while the change was being delivered (class-level
                # handlers that read properties run before the invalidating observer,
                # so they may compute once and be invalidated straight after) are not
                # runs "between two changes": the at-most-once rule is applied to the
                # reads made from the quiescent point on
                if runs:
                    stats["inflight_getter_runs"] = stats.get("inflight_getter_runs", 0) + \
                        sum(runs.values())
                runs.clear()
                after = self.model_all(world)
                changed = [key for key in after if before.get(key) != after[key]]
                for key in changed:
                    cached_valid.discard(key)
                    env.oracle_evals += 1
                    if key[1] in m_listen.get(key[0], ()):
                        evs = events.get(key, [])
                        if not evs:
                            raise Violation("C12.no-notification",
                                            "%s changed N%d.%s from %r to %r but its handlers got "
                                            "no event" % (describe(op), key[0], key[1],
                                                          before.get(key), after[key]), i)
                        if evs[-1] != after[key]:
                            raise Violation("C12.notification-value",
                                            "%s: last event for N%d.%s reports %r, recomputed %r"
                                            % (describe(op), key[0], key[1], evs[-1], after[key]), i)
                env.token(k, op.get("op", {}).get("k"), tuple(sorted({c[1] for c in changed})))
                env.cover(k, op.get("op", {}).get("k"), bool(changed))
            # ---- reads at the quiescent point
            model = self.model_all(world)
            rd = op.get("rd", 0)
            nread = 0
            for (uid, p), want in sorted(model.items()):
                if mix(rd, uid, p) % cfg["read_mod"] != 0:
                    continue
                n = world.node(uid)
                key = (uid, p)
                r0 = runs.get(key, 0)
                got, e = sut(getattr, n, p)
                env.oracle_evals += 1
                nread += 1
                if e is not None:
                    raise Violation("C12.read-raised", "reading N%d.%s raised %r" % (uid, p, e), i)
                if got != want:
                    raise Violation("C12.stale",
                                    "after %s: N%d.%s reads %r, its getter computes %r from the "
                                    "current state" % (describe(op), uid, p, got, want), i)
                if Z.PROPS[p][0]:
                    if runs.get(key, 0) > 1:
                        raise Violation("C12.cache-recomputed",
                                        "cached getter of N%d.%s ran %d times without an "
                                        "intervening change" % (uid, p, runs[key]), i)
                    if key in cached_valid and runs.get(key, 0) == r0:
                        stats["cache_reused"] += 1
                    if key not in cached_valid:
                        stats["changed_then_read"] += 1
                    cached_valid.add(key)
            env.end_op()
        if routed or legacy:
            raise Violation("C12.handler-exception", "an exception was routed to an exception "
                            "handler during the history", None)
        env.nontrivial = stats["changed_then_read"] > 0 and stats["cache_reused"] > 0
        env.probe("cache-reused", stats["cache_reused"])
        env.probe("read-after-change", stats["changed_then_read"])

    @staticmethod
    def model_all(world):
        out = {}
        for uid in world.alive_uids():
            m = world.model(uid)
            if m.cls != "PNode":
                continue
            for p in Z.PROP_NAMES:
                out[(uid, p)] = Z.model_value(m, p)
        return out

    def cleanup(self):
        if getattr(self, "_pushed", False):
            from traits.observation import api as oapi
            from traits.api import pop_exception_handler
            oapi.pop_exception_handler()
            pop_exception_handler()
            self._pushed = False
        w = getattr(self, "_world", None)
        if w is not None:
            w.on_getter = None
            w.close()
            self._world = None

    def simplify_trace(self, trace):
        cfg = trace["config"]
        if cfg["read_mod"] != 1:
            t = dict(trace)
            t["config"] = dict(cfg, read_mod=1)
            yield t
        if cfg["listen_mech"] == "both":
            for mech in ("observe", "otc"):
                t = dict(trace)
                t["config"] = dict(cfg, listen_mech=mech)
                yield t
        if any(any(row) for row in cfg["listen"]):
            t = dict(trace)
            t["config"] = dict(cfg, listen=[[False] * len(Z.PROP_NAMES) for _ in cfg["listen"]])
            yield t

    def coverage_report(self, cells):
        return {"measure": "(op kind, container mutator, some property value changed) cells",
                "cells_hit": len(cells), "with_change": len([c for c in cells if c[2]])}


def mk_obs(events, env):
    def h(event):
        env.log("pobs", event.name)
        events.setdefault((event.object.uid, event.name), []).append(event.new)
    return h


def mk_otc(events, env):
    def h(obj, name, old, new):
        env.log("potc", name)
        events.setdefault((obj.uid, name), []).append(new)
    return h


def describe(op):
    inner = op.get("op", {}).get("k") if isinstance(op.get("op"), dict) else None
    return "%s%s on #%s" % (op["k"], ("/" + inner) if inner else "", op.get("o"))


PROP = Prop()
