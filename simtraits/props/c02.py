"""C02 - change handlers fire exactly once per real change, with truthful
old/new, across the three mechanisms, also when handlers fail or are deferred.

World: one generated HasTraits class per run (traits over kinds x comparison
modes), static / decorator / dynamic handlers of all three mechanisms, a
simulated scheduler for dispatch="ui" (from a simulated worker thread) and
dispatch="new".  Environment: handler exceptions at the n-th invocation,
thread switches, delivery order and delay of deferred calls, gc.
"""
import asyncio
import gc
import inspect

from ..core import Violation, HarnessError, stream, sut, exc_name, InjectedFault
from ..core import deep
from ..sched import Sched

ID = "C02"

KINDS = ["Any", "Any", "Int", "Str", "List", "Instance", "Event", "Button"]
MODES = ["none", "identity", "equality"]
MISSING = "<missing>"


class BadRepr:
    """A value that cannot be printed (repr/str raise), as a handle to a closed
    resource or an int beyond the digit limit would be."""

    def __repr__(self):
        raise RuntimeError("unprintable")

    __str__ = __repr__


class BadEq:
    """A value whose == and != raise."""
    __hash__ = object.__hash__

    def __eq__(self, other):
        raise RuntimeError("eq raises")

    def __ne__(self, other):
        raise RuntimeError("ne raises")

    def __repr__(self):
        return "BadEq"


def build_pool():
    import numpy as np
    from ..zoo import NodeBase

    class BadReprNode(NodeBase):
        def __repr__(self):
            raise RuntimeError("unprintable")
        __str__ = __repr__
    nan1 = float("nan")
    nan2 = float("nan")
    return [
        int("1000"), int("1001"), int("1002"), int("1003"),      # 0-3 distinct ints
        int("1000"),                                              # 4 equal to #0, not identical
        1, 1.0, True,                                             # 5 6 7
        [1], [1], [2],                                            # 8 9 10
        nan1, nan2,                                               # 11 12
        None,                                                     # 13
        BadEq(), BadEq(),                                         # 14 15
        np.array([1, 2]), np.array([1, 2]), np.array([3, 4]),     # 16 17 18
        "ab", "".join(["a", "b"]), "cd",                          # 19 20 21
        NodeBase(), NodeBase(),                                   # 22 23
        (1,), 1.5, "1000",                                        # 24 25 26
        BadRepr(), BadReprNode(),                                 # 27 28
    ]


VALID = {
    "Any": list(range(29)),
    "Int": [0, 1, 2, 3, 4, 5, 0, 4],
    "Str": [19, 20, 21, 26],
    "List": [8, 9, 10],
    "Instance": [22, 23, 13, 22, 28],
    "Event": [0, 1, 5, 13, 19, 8, 11, 27],
    "Button": [0, 1, 5, 13, 19],
}
INVALID = {
    "Int": [6, 13, 19, 25, 8],
    "Str": [13, 8, 22],
    "List": [5, 13, 24],
    "Instance": [5, 19, 8],
}
DEFAULT = {"Any": None, "Int": 0, "Str": "", "List": [], "Instance": None}


def vrepr(i):
    return "v%d" % i


class Prop:
    ID = ID
    LEVEL = "exploration"
    CHUNK = 50
    GC_EVERY = 10
    RULE = ("seeded random histories (5-40 ops: assignments incl. identical / equal-not-identical "
            "/ NaN / raising-== / numpy / None / rejected values, trait_set with several names, "
            "default reads, register/unregister, simulated thread switches, deliveries of "
            "deferred calls) on a generated class with 2-5 traits over {Any,Int,Str,List,Instance,"
            "Event,Button} x {none,identity,equality} and static, decorator and dynamic handlers "
            "of all three mechanisms (arity 0-4, priority, dispatch same/ui/new, async observe handlers run as asyncio tasks), with handler "
            "exceptions injected at the n-th invocation; non-trivial = at least one assignment "
            "that counted as a change was checked against >= 2 handlers; distinct = distinct "
            "abstract traces (op kind, trait kind/mode, value-pair class, outcome, handlers "
            "called, fault fired per op)")
    ASSUMPTIONS = ["handler order is unspecified and never asserted",
                   "for values whose comparison raises only agreement of the mechanisms is required",
                   "del obj.x, veto notify and nested assignment to the trait being dispatched are "
                   "not generated"]
    COMPONENTS = {"real": ["traits (Python + ctraits from the working tree)", "CPython gc",
                           "stock asyncio event loop (stepped only by the simulator; no I/O, no "
                           "timers) for async observe handlers"],
                  "stub": ["OS thread identity (traits.trait_notifiers.threading shim)",
                           "threading.Thread for dispatch='new' (SimThread -> simulator queue)",
                           "UI toolkit event queue (set_ui_handler -> simulator queue)",
                           "log sinks (push_exception_handler recorders)"]}

    # ------------------------------------------------------------------ generation
    def gen(self, seed):
        c = stream(seed, "config")
        r = stream(seed, "ops")
        er = stream(seed, "env")
        ntr = c.randint(2, 5)
        traits = []
        for i in range(ntr):
            kind = c.choice(KINDS)
            traits.append({"name": "t%d" % i, "kind": kind,
                           "mode": c.choice(MODES) if kind not in ("Event", "Button") else "event"})
        shared_def = None
        if ntr >= 2 and c.random() < 0.2:
            # ONE ready-made trait definition object bound to two names of the class
            # (and to a name of an unrelated class that has a static handler of its own)
            i, j = c.sample(range(ntr), 2)
            traits[j]["kind"], traits[j]["mode"] = traits[i]["kind"], traits[i]["mode"]
            traits[j]["same_as"] = i
            shared_def = {"other": c.choice(["before", "after", None])}
        hid = [0]

        def nid(prefix):
            hid[0] += 1
            return "%s%d" % (prefix, hid[0])
        static = []
        for i in range(ntr):
            if c.random() < 0.5:
                static.append({"id": nid("s"), "trait": i, "arity": c.randint(0, 3),
                               "fired": c.random() < 0.5})
                if c.random() < 0.3:
                    # both spellings for one trait: _x_changed AND _x_fired, each called once
                    static[-1]["fired"] = False
                    static.append({"id": nid("s"), "trait": i, "arity": c.randint(0, 3),
                                   "fired": True, "both": True})
        any_h = {"id": nid("a"), "arity": c.randint(1, 3)} if c.random() < 0.4 else None
        dec = []
        for _ in range(c.choice([0, 0, 1, 2])):
            dec.append({"id": nid("d"), "mech": c.choice(["otc", "obs"]),
                        "trait": c.randrange(ntr), "post_init": c.random() < 0.3,
                        "magic": c.random() < 0.35})
        deferred_ok = c.random() < 0.5
        dyn = []
        for _ in range(c.randint(1, 5)):
            mech = c.choice(["otc", "otc", "obs"])
            d = {"id": nid("o" if mech == "otc" else "b"), "mech": mech,
                 "trait": c.choice([None] + list(range(ntr))) if mech == "otc" else c.randrange(ntr),
                 "initial": c.random() < 0.7}
            if mech == "otc":
                d["arity"] = c.randint(0, 4)
                d["priority"] = c.random() < 0.2
                d["method"] = c.random() < 0.3
                d["dispatch"] = c.choice(["same", "same", "ui", "new", "fast_ui"]) if deferred_ok else "same"
            else:
                d["dispatch"] = c.choice(["same", "same", "ui"]) if deferred_ok else "same"
                if deferred_ok and d["dispatch"] == "same" and c.random() < 0.35:
                    d["async"] = True
            dyn.append(d)
        # names that exist only through a wildcard definition ('w_ = Any()'): they come
        # into being at their first use; only the all-trait handlers apply to them
        for j in range(c.choice([0, 0, 0, 1, 2])):
            traits.append({"name": "w_%d" % j, "kind": "Any", "mode": "equality", "wild": True})
        if any(t.get("wild") for t in traits):
            for d in dyn:
                if d["mech"] == "obs" and c.random() < 0.5:
                    d["trait"] = None          # observe(handler, "*")
                if d["mech"] == "otc" and d["trait"] is None and d["arity"] < 2:
                    # (an all-trait handler also hears 'trait_added' when a name comes
                    # into being; only signatures that receive the name can tell)
                    d["arity"] = 2 + d["arity"]
        ntr = len(traits)
        ctor = []
        for _ in range(c.choice([0, 0, 1, 2])):
            ti = c.randrange(ntr)
            if all(x[0] != ti for x in ctor):
                ctor.append([ti, c.choice(VALID[traits[ti]["kind"]])])
        nops = deep(c, [5, 8, 12, 20, 30, 40], [60, 90])
        # the object may be an instance of a subclass (or sub-subclass) that inherits
        # the static handlers and may override one of them
        subclass = c.choice([0, 0, 1, 1, 2])
        override = (c.randrange(len(static)) if (static and subclass and c.random() < 0.5)
                    else None)
        fault_rate = c.choice([0.0, 0.0, 0.1, 0.25])
        policy = c.choice(["fifo", "lifo"])
        handler_ids = ([s["id"] for s in static] + ([any_h["id"]] if any_h else [])
                       + [d["id"] for d in dec] + [d["id"] for d in dyn])
        ops = []
        for _ in range(nops):
            x = r.random()
            if x < 0.62:
                ti = r.randrange(ntr)
                kind = traits[ti]["kind"]
                if kind in INVALID and r.random() < 0.12:
                    v = r.choice(INVALID[kind])
                else:
                    v = r.choice(VALID[kind])
                op = {"k": "set", "t": ti, "v": v}
            elif x < 0.70:
                n = r.randint(2, min(3, ntr))
                tis = r.sample(range(ntr), n)
                items = []
                for ti in tis:
                    kind = traits[ti]["kind"]
                    if kind in INVALID and r.random() < 0.1:
                        items.append([ti, r.choice(INVALID[kind])])
                    else:
                        items.append([ti, r.choice(VALID[kind])])
                op = {"k": "trait_set", "items": items}
                if r.random() < 0.3:
                    # quiet: no handler is called for these assignments - and every
                    # handler is called again for the next ordinary one
                    op["quiet"] = r.choice(["trait_setq", "trait_set"])
            elif x < 0.73:
                op = {"k": "read", "t": r.randrange(ntr)}
            elif x < 0.76:
                op = {"k": "readd", "t": r.randrange(ntr)}
            elif x < 0.86:
                d = r.choice(dyn)
                op = {"k": r.choice(["reg", "unreg"]), "h": d["id"]}
            elif x < 0.92 and deferred_ok:
                op = {"k": "thread", "name": r.choice(["main", "w1", "w1", "w2"])}
            elif x < 0.98 and deferred_ok:
                op = {"k": "deliver", "n": r.choice([1, 1, 2, 99]), "i": r.randrange(8)}
            else:
                op = {"k": "gc"}
            if op["k"] in ("set", "trait_set", "deliver") and handler_ids and er.random() < fault_rate:
                op["env"] = [{"at": "h:" + er.choice(handler_ids), "nth": 1,
                              "do": er.choice(["raise", "raise", "raise", "gc"]),
                              "exc": er.choice(["TraitError", "ValueError", "AttributeError",
                                                "RuntimeError", "ZeroDivisionError"])}]
                if er.random() < 0.3:
                    op["env"].append({"at": "h:" + er.choice(handler_ids), "nth": 1, "do": "raise",
                                      "exc": er.choice(["ValueError", "RuntimeError"])})
            ops.append(op)
        return {"prop": ID, "seed": seed,
                "config": {"traits": traits, "static": static, "any": any_h, "dec": dec,
                           "dyn": dyn, "ctor": ctor, "policy": policy, "subclass": subclass,
                           "override": override, "shared_def": shared_def,
                           # no exception handler pushed: the library's own default
                           # (logging) handlers deal with failing change handlers
                           "default_exc": c.random() < 0.2},
                "ops": ops}

    @staticmethod
    def mk_trait(t):
        from traits.api import Any, Int, Str, List, Event, Button, Instance
        from traits.constants import ComparisonMode as CM
        from ..zoo import NodeBase
        cm = {"none": CM.none, "identity": CM.identity, "equality": CM.equality}
        k = t["kind"]
        if k == "Event":
            return Event()
        if k == "Button":
            return Button()
        if k == "Instance":
            return Instance(NodeBase, comparison_mode=cm[t["mode"]])
        return {"Any": Any, "Int": Int, "Str": Str, "List": List}[k](comparison_mode=cm[t["mode"]])

    # ------------------------------------------------------------------ world
    def build(self, cfg, H):
        from traits.api import (HasTraits, Any, Int, Str, List, Instance, Event, Button,
                                on_trait_change, observe)
        from traits.constants import ComparisonMode as CM
        from ..zoo import NodeBase
        cm = {"none": CM.none, "identity": CM.identity, "equality": CM.equality}
        ns = {}
        names = [t["name"] for t in cfg["traits"]]
        shared_src = {t["same_as"] for t in cfg["traits"] if "same_as" in t}
        if any(t.get("wild") for t in cfg["traits"]):
            ns["w_"] = Any()
        for ti, t in enumerate(cfg["traits"]):
            k = t["kind"]
            if "same_as" in t or t.get("wild"):
                continue
            if ti in shared_src:
                # a ready-made definition object (as `Color`, `Font`, `Trait(...)` constants
                # are): bound to a second name below
                ns[t["name"]] = self.mk_trait(t).as_ctrait()
                continue
            if k == "Event":
                ns[t["name"]] = Event()
            elif k == "Button":
                ns[t["name"]] = Button()
            elif k == "Instance":
                ns[t["name"]] = Instance(NodeBase, comparison_mode=cm[t["mode"]])
            else:
                ns[t["name"]] = {"Any": Any, "Int": Int, "Str": Str, "List": List}[k](
                    comparison_mode=cm[t["mode"]])
        for t in cfg["traits"]:
            if "same_as" in t:
                ns[t["name"]] = ns[cfg["traits"][t["same_as"]]["name"]]
        sd = cfg.get("shared_def")
        shared_obj = {t["name"]: ns[t["name"]] for ti, t in enumerate(cfg["traits"])
                      if ti in shared_src}

        def other_class():
            # an unrelated class declares the same definition object and a static
            # handler for it: that handler must never hear of our object
            src = [t for ti, t in enumerate(cfg["traits"]) if ti in shared_src][0]
            return type(HasTraits)("SimC02Other", (HasTraits,), {
                src["name"]: shared_obj[src["name"]],
                "_%s_changed" % src["name"]: mk_static("foreign", 3, H, src["name"])})
        if sd and sd.get("other") == "before" and shared_src:
            self._other = other_class()
        for s in cfg["static"]:
            t = cfg["traits"][s["trait"]]
            tn = t["name"]
            suffix = "_fired" if ((t["kind"] in ("Event", "Button") or s.get("both"))
                                  and s.get("fired")) else "_changed"
            ns["_%s%s" % (tn, suffix)] = mk_static(s["id"], s["arity"], H, tn)
        if cfg.get("any"):
            ns["_anytrait_changed"] = mk_any(cfg["any"]["id"], cfg["any"]["arity"], H, set(names))
        for j, d in enumerate(cfg["dec"]):
            tn = cfg["traits"][d["trait"]]["name"]
            mname = "_dec%d" % j
            if d.get("magic") and ("_%s_changed" % tn) not in ns:
                # a decorated method that carries the NAME of a static handler: it is a
                # decorated handler only (also in subclasses that inherit it)
                mname = "_%s_changed" % tn
            if d["mech"] == "otc":
                ns[mname] = on_trait_change(tn, post_init=d["post_init"])(
                    mk_dec_otc(d["id"], H, mname))
            else:
                ns[mname] = observe(tn, post_init=d["post_init"])(
                    mk_dec_obs(d["id"], H, mname))
        cls = type(HasTraits)("SimC02", (HasTraits,), ns)
        if sd and sd.get("other") == "after" and shared_src:
            self._other = other_class()
        for level in range(cfg.get("subclass") or 0):
            sub_ns = {}
            ov = cfg.get("override")
            if level == 0 and ov is not None and ov < len(cfg["static"]):
                # the subclass overrides one static handler: only the override may run
                sdef = cfg["static"][ov]
                t = cfg["traits"][sdef["trait"]]
                tn = t["name"]
                suffix = "_fired" if ((t["kind"] in ("Event", "Button") or sdef.get("both"))
                                      and sdef.get("fired")) else "_changed"
                sub_ns["_%s%s" % (tn, suffix)] = mk_static(sdef["id"] + "_ov", sdef["arity"], H, tn)
            cls = type(HasTraits)("SimC02Sub%d" % level, (cls,), sub_ns)
        return cls

    # ------------------------------------------------------------------ execution
    def execute(self, trace, env):
        """The history runs inside a coroutine on a stock asyncio loop that only
        the simulator steps: async observe handlers become tasks that run at
        'deliver' ops and at the final drain, never on their own."""
        loop = asyncio.new_event_loop()
        self._loop_errors = []
        loop.set_exception_handler(lambda l, ctx: self._loop_errors.append(ctx))
        try:
            loop.run_until_complete(self._run(trace, env))
        finally:
            try:
                for t in asyncio.all_tasks(loop):
                    t.cancel()
                loop.run_until_complete(asyncio.sleep(0))
            except Exception:      # noqa: BLE001
                pass
            loop.close()

    async def _run(self, trace, env):
        from traits.api import push_exception_handler, pop_exception_handler, Undefined
        from traits.trait_errors import TraitError
        from traits.observation import api as oapi
        cfg = trace["config"]
        traits = cfg["traits"]
        pool = build_pool()
        sched = Sched(env)
        records = []          # dicts
        legacy_exc = []
        obs_exc = []

        def H(hid, name, old, new, obj=MISSING, origin=None):
            if name == "trait_added":
                return        # (the all-trait handlers also hear of names coming into being)
            rec = {"h": hid, "origin": sched.cur_origin() if origin is None else origin,
                   "name": name, "old": old, "new": new, "obj": obj,
                   "deferred": sched.origin is not None, "async": origin is not None}
            records.append(rec)
            if origin is not None:
                env.probe("async-handler-task-ran")
            try:
                env.point("h:" + hid, (name if name is not MISSING else None))
            except BaseException:
                rec["raised"] = True
                raise

        H.origin = sched.cur_origin
        self._sched = sched
        self._pushed = 0
        self._other = None
        sched.install()
        if cfg.get("default_exc"):
            # the library's default handlers log the failure; a real log handler (one
            # that formats every record, as a stream handler does) counts the reports
            import logging

            class Counting(logging.Handler):
                def emit(self, record):
                    legacy_exc.append("log")
                    try:
                        self.format(record)
                    except Exception:     # noqa: BLE001 - logging.Handler.handleError
                        pass
            lg = logging.getLogger("traits")
            self._log_state = (lg, Counting(), lg.propagate, lg.level, logging.root.manager.disable)
            lg.addHandler(self._log_state[1])
            lg.propagate = False
            logging.disable(logging.NOTSET)
            env.probe("default-exception-handlers-run")
        else:
            push_exception_handler(lambda o, n, old, new: legacy_exc.append(n),
                                   reraise_exceptions=False)
            self._pushed = 1
            oapi.push_exception_handler(lambda ev: obs_exc.append(getattr(ev, "name", None)),
                                        reraise_exceptions=False)
            self._pushed = 2
        cls = self.build(cfg, H)
        listeners = []
        # ---- per-handler applicability
        applies = {}      # hid -> set of trait indices
        ov = cfg.get("override") if cfg.get("subclass") else None
        static_ids = []
        for j, s in enumerate(cfg["static"]):
            hid = s["id"] + "_ov" if (ov is not None and j == ov) else s["id"]
            static_ids.append(hid)
            applies[hid] = {s["trait"]}
            if hid != s["id"]:
                applies[s["id"]] = set()        # the overridden base handler must never run
        if cfg.get("any"):
            applies[cfg["any"]["id"]] = set(range(len(traits)))
        for d in cfg["dec"]:
            applies[d["id"]] = {d["trait"]}
        dyn = {d["id"]: d for d in cfg["dyn"]}
        for d in cfg["dyn"]:
            applies[d["id"]] = set(range(len(traits))) if d["trait"] is None else {d["trait"]}
        active = set(static_ids) | {s["id"] for s in cfg["static"]}
        if cfg.get("any"):
            active.add(cfg["any"]["id"])
        for d in cfg["dec"]:
            if not d["post_init"]:
                active.add(d["id"])
        stored = {}           # trait index -> object currently readable (absent: unmaterialised)
        expected = []         # (origin, trait index, old, new, changed(True/None), frozenset(active))
        # ---- construction with keywords (op index -1)
        env.begin_op(-1, {"k": "ctor"})
        kw = {}
        for ti, vi in cfg["ctor"]:
            kw[traits[ti]["name"]] = pool[vi]
        obj, e = sut(lambda: cls(**kw))
        env.end_op()
        if e is not None:
            raise Violation("C02.ctor", "constructor with valid keywords raised %r" % (e,), -1)
        for ti, vi in cfg["ctor"]:
            self.model_assign(traits, stored, expected, -1, ti, pool[vi], active, obj, Undefined)
        for d in cfg["dec"]:
            active.add(d["id"])
        handlers = {}
        for d in cfg["dyn"]:
            handlers[d["id"]] = self.make_dyn(d, H, listeners)
            if d["initial"]:
                self.register(obj, traits, d, handlers[d["id"]], False)
                active.add(d["id"])
        # ---- history
        unprintable_seen = [1 for ti, vi in cfg["ctor"] if vi % len(pool) in (27, 28)]
        nchecked = 0
        for i, op in enumerate(trace["ops"]):
            env.begin_op(i, op)
            k = op["k"]
            n_leg0, n_obs0 = len(legacy_exc), len(obs_exc)
            rec0 = len(records)
            if k == "set":
                ti = op["t"] % len(traits)
                v = pool[op["v"] % len(pool)]
                self.do_assign(env, obj, traits, stored, expected, i, ti, v, active,
                               lambda: setattr(obj, traits[ti]["name"], v), Undefined, TraitError)
            elif k == "trait_set":
                items = [(ti % len(traits), pool[vi % len(pool)]) for ti, vi in op["items"]]
                seen = set()
                items = [x for x in items if not (x[0] in seen or seen.add(x[0]))]
                quiet = op.get("quiet")
                if quiet:
                    # (a name brought into being while notifications are off is not
                    # announced either: observers of '*' would be out of step by design)
                    items = [x for x in items if not traits[x[0]].get("wild")]
                kwargs = {traits[ti]["name"]: v for ti, v in items}
                if quiet == "trait_setq":
                    _, e = sut(lambda: obj.trait_setq(**kwargs))
                elif quiet:
                    _, e = sut(lambda: obj.trait_set(trait_change_notify=False, **kwargs))
                else:
                    _, e = sut(lambda: obj.trait_set(**kwargs))
                rejected = False
                for ti, v in items:
                    if self.is_valid(traits[ti]["kind"], v):
                        self.model_assign(traits, stored, expected, i, ti, v, active, obj, Undefined,
                                          quiet=bool(quiet))
                    else:
                        rejected = True
                        break
                if rejected != isinstance(e, TraitError) or (e is not None and not rejected):
                    raise Violation("C02.rejection",
                                    "trait_set(%s): %s but got %r"
                                    % (", ".join("%s=%s" % (traits[a]["name"], short(b)) for a, b in items),
                                       "expected TraitError" if rejected else "all values valid", e), i)
            elif k == "read":
                ti = op["t"] % len(traits)
                t = traits[ti]
                val, e = sut(getattr, obj, t["name"])
                if t["kind"] in ("Event", "Button"):
                    if not isinstance(e, AttributeError):
                        raise Violation("C02.read", "reading an Event gave %r / %r" % (val, e), i)
                else:
                    if e is not None:
                        raise Violation("C02.read", "reading %s raised %r" % (t["name"], e), i)
                    if ti in stored:
                        if val is not stored[ti]:
                            raise Violation("C02.read", "read of %s is not the stored object"
                                            % t["name"], i)
                    else:
                        if not safe_eq(val, DEFAULT[t["kind"]]):
                            raise Violation("C02.read", "default of %s read as %r"
                                            % (t["name"], val), i)
                        stored[ti] = val
            elif k in ("reg", "unreg"):
                d = dyn.get(op["h"])
                if d is not None and ((k == "reg") != (d["id"] in active)):
                    _, e = sut(self.register, obj, traits, d, handlers[d["id"]], k == "unreg")
                    if e is not None:
                        raise Violation("C02.registration", "%s of %s raised %r" % (k, d["id"], e), i)
                    if k == "reg":
                        active.add(d["id"])
                    else:
                        active.discard(d["id"])
            elif k == "thread":
                sched.switch(op["name"])
            elif k == "deliver":
                for _ in range(min(op["n"], 200)):
                    idx = -1 if cfg["policy"] == "lifo" else op.get("i", 0)
                    if not sched.deliver(idx):
                        break
                # let the asyncio loop run the handler tasks created so far
                sched.origin = -2           # (bodies carry their own origin)
                try:
                    for _ in range(min(op["n"], 3)):
                        await asyncio.sleep(0)
                finally:
                    sched.origin = None
            elif k == "gc":
                gc.collect()
            elif k == "sibling_touch":
                # ANOTHER instance of the class brings a wildcard name into being first.
                # Known finding K7: the observers of '*' on this object then never hear of
                # the name (trait_added is sent to the first instance only); generated
                # for the witness only
                if cfg.get("allow_k7"):
                    t = traits[op["t"] % len(traits)]
                    other = cls()
                    sut(setattr, other, t["name"], pool[op["v"] % len(pool)])
                    del other
            elif k == "readd":
                # the same definition once more, as an instance trait: every handler -
                # static, decorated, dynamic - stays attached exactly once
                t = traits[op["t"] % len(traits)]
                _, e = sut(obj.add_trait, t["name"], self.mk_trait(t))
                if e is not None:
                    raise Violation("C02.add_trait", "add_trait(%s, <same definition>) raised %r"
                                    % (t["name"], e), i)
            else:
                raise HarnessError("unknown op %r" % k)
            env.end_op()
            # ---- containment: every exception raised by a synchronously dispatched handler
            # during this op was routed exactly once to the pushed exception handlers
            sync_raised = sum(1 for rec in records[rec0:]
                              if rec.get("raised") and not rec["deferred"] and not rec.get("async"))
            routed = (len(legacy_exc) - n_leg0) + (len(obs_exc) - n_obs0)
            vis = ([op.get("v")] if k == "set" else
                   [x[1] for x in op.get("items", ())] if k == "trait_set" else [])
            if any(isinstance(vi, int) and vi % len(pool) in (27, 28) for vi in vis):
                unprintable_seen.append(1)     # (sticky: it may be the old value next time)
            if cfg.get("default_exc") and unprintable_seen and routed < sync_raised:
                # the default handler of on_trait_change gives up silently on a report it
                # cannot format ("ignore anything we can't log"): at most one report each
                routed = sync_raised
            if routed != sync_raised:
                raise Violation("C02.exception-routing",
                                "op %s: %d handler exception(s) raised synchronously, %d routed to "
                                "the exception handlers" % (k, sync_raised, routed), i)
            env.token(k, len(records) - rec0, sync_raised)
        # ---- final drain: bounded liveness of deferred dispatch
        env.begin_op(len(trace["ops"]), {"k": "drain"})
        pending = len(sched.queue)
        ok = sched.drain(cfg["policy"])
        me = asyncio.current_task()
        sched.origin = -2
        try:
            for _ in range(10000):
                if not [t for t in asyncio.all_tasks() if t is not me and not t.done()]:
                    break
                await asyncio.sleep(0)
            else:
                ok = False
        finally:
            sched.origin = None
        env.end_op()
        if not ok or sched.queue:
            raise Violation("C02.drain", "deferred queue did not empty within its bound", None)
        if sched.delivered != sched.enqueued:
            raise Violation("C02.drain", "%d deferred calls enqueued, %d delivered"
                            % (sched.enqueued, sched.delivered), None)
        deferred_raised = sum(1 for rec in records
                              if rec.get("raised") and rec["deferred"] and not rec.get("async"))
        if len(sched.escaped) != deferred_raised:
            raise Violation("C02.exception-routing",
                            "%d exceptions raised by deferred handlers, %d reached the event loop"
                            % (deferred_raised, len(sched.escaped)), None)
        for (_, _, exc) in sched.escaped:
            if not isinstance(exc, InjectedFault):
                raise Violation("C02.deferred-exception",
                                "deferred call failed with %r" % (exc,), None)
        # ---- the oracle over the recorded history
        by = {}
        for rec in records:
            by.setdefault((rec["origin"], rec["h"]), []).append(rec)
        tnames = [t["name"] for t in traits]
        for (origin, ti, old, new, changed, act) in expected:
            tn = tnames[ti]
            counts = {}
            for hid in sorted(act):
                if ti not in applies[hid]:
                    continue
                recs = [x for x in by.get((origin, hid), ())
                        if x["name"] is MISSING or x["name"] == tn]
                # handlers that cannot see the name and apply to several traits: count only
                if any(x["name"] is MISSING for x in recs) and len(applies[hid]) > 1:
                    continue
                counts[hid] = len(recs)
                env.oracle_evals += 1
                for x in recs:
                    if x["old"] is not MISSING and not same_old(x["old"], old):
                        raise Violation("C02.old-value",
                                        "op %d %s: handler %s got old=%s, readable before was %s"
                                        % (origin, tn, hid, short(x["old"]), short(old)), origin)
                    if x["new"] is not MISSING and x["new"] is not new:
                        raise Violation("C02.new-value",
                                        "op %d %s: handler %s got new=%s, readable after is %s"
                                        % (origin, tn, hid, short(x["new"]), short(new)), origin)
                    if x["obj"] is not MISSING and x["obj"] is not obj:
                        raise Violation("C02.event-object", "event names another object", origin)
            if not counts:
                continue
            if changed is True:
                bad = {h: n for h, n in counts.items() if n != 1}
                if bad:
                    raise Violation("C02.call-count",
                                    "op %d: %s %s -> %s (%s/%s) is a change; calls per handler: %r"
                                    % (origin, tn, short(old), short(new), traits[ti]["kind"],
                                       traits[ti]["mode"], counts), origin)
                if len(counts) >= 2:
                    nchecked += 1
            elif changed is False:
                bad = {h: n for h, n in counts.items() if n != 0}
                if bad:
                    raise Violation("C02.spurious-call",
                                    "op %d: %s %s -> %s (%s/%s) is not a change; calls per handler: %r"
                                    % (origin, tn, short(old), short(new), traits[ti]["kind"],
                                       traits[ti]["mode"], counts), origin)
            else:
                if len(set(counts.values())) > 1 or max(counts.values()) > 1:
                    raise Violation("C02.mechanisms-disagree",
                                    "op %d: %s %s -> %s (comparison raises): calls per handler: %r"
                                    % (origin, tn, short(old), short(new), counts), origin)
            env.cover(traits[ti]["kind"], traits[ti]["mode"], pair_class(old, new),
                      bool(changed), len(counts) >= 2)
        # ---- nothing was called that no expectation accounts for
        exp_keys = {}
        for (origin, ti, old, new, changed, act) in expected:
            exp_keys.setdefault(origin, set()).add(tnames[ti])
        for rec in records:
            if rec["h"] == "foreign":
                raise Violation("C02.foreign-handler-called",
                                "the static handler of an unrelated class that declares the same "
                                "trait definition object was called (op %d)" % rec["origin"],
                                rec["origin"])
            if rec["name"] is not MISSING and rec["h"] in applies and rec["name"] in tnames \
                    and applies[rec["h"]] and tnames.index(rec["name"]) not in applies[rec["h"]]:
                raise Violation("C02.spurious-call",
                                "handler %s was called for %s (op %d), a trait it was never "
                                "registered for" % (rec["h"], rec["name"], rec["origin"]),
                                rec["origin"])
            if rec["h"] in applies and not applies[rec["h"]]:
                raise Violation("C02.overridden-handler-called",
                                "static handler %s is overridden in the subclass but was called "
                                "(op %d)" % (rec["h"], rec["origin"]), rec["origin"])
            names_ok = exp_keys.get(rec["origin"], set())
            if rec["name"] is MISSING:
                if not names_ok:
                    raise Violation("C02.spurious-call",
                                    "handler %s called in op %d which assigned nothing accepted"
                                    % (rec["h"], rec["origin"]), rec["origin"])
            elif rec["name"] not in names_ok:
                raise Violation("C02.spurious-call",
                                "handler %s called for %s in op %d (rejected assignment, default "
                                "read or no assignment)" % (rec["h"], rec["name"], rec["origin"]),
                                rec["origin"])
        env.nontrivial = nchecked > 0
        env.probe("deferred-delivered", sched.delivered)
        env.probe("pending-at-final-drain", pending)

    # ------------------------------------------------------------------ helpers
    @staticmethod
    def is_valid(kind, v):
        from ..zoo import NodeBase
        if kind in ("Any", "Event", "Button"):
            return True
        if kind == "Int":
            return type(v) is int
        if kind == "Str":
            return type(v) is str
        if kind == "List":
            return type(v) is list
        if kind == "Instance":
            return v is None or isinstance(v, NodeBase)
        raise AssertionError(kind)

    def do_assign(self, env, obj, traits, stored, expected, i, ti, v, active, call, Undefined,
                  TraitError):
        t = traits[ti]
        _, e = sut(call)
        if not self.is_valid(t["kind"], v):
            if not isinstance(e, TraitError):
                raise Violation("C02.rejection", "%s = %s (%s): expected TraitError, got %r"
                                % (t["name"], short(v), t["kind"], e), i)
            return
        if e is not None:
            raise Violation("C02.assignment-raised",
                            "%s = %s (%s/%s) raised %r (handler exceptions must be contained)"
                            % (t["name"], short(v), t["kind"], t["mode"], e), i)
        self.model_assign(traits, stored, expected, i, ti, v, active, obj, Undefined)

    @staticmethod
    def model_assign(traits, stored, expected, origin, ti, v, active, obj, Undefined, quiet=False):
        """Update the model for an accepted assignment (already performed on the
        object) and record the expectation."""
        t = traits[ti]
        kind, mode = t["kind"], t["mode"]
        if kind in ("Event", "Button"):
            expected.append((origin, ti, Undefined, v, not quiet, frozenset(active)))
            return
        had = ti in stored
        old = stored[ti] if had else DEFAULT[kind]
        new = obj.__dict__.get(t["name"], MISSING)
        if new is MISSING:
            raise Violation("C02.stored", "%s not stored after assignment" % t["name"], origin)
        if kind == "List":
            ok = isinstance(new, list) and list(new) == v
            identical = False
        else:
            ok = new is v
            identical = (v is old) if (had or old is None or kind in ("Int", "Str")) else False
        if not ok:
            raise Violation("C02.stored", "%s = %s stored %s" % (t["name"], short(v), short(new)),
                            origin)
        if mode == "none":
            changed = True
        elif identical:
            changed = False
        elif mode == "identity":
            changed = True
        else:
            try:
                changed = bool(old != new)
            except Exception:      # noqa: BLE001 - comparison raises: only agreement is required
                changed = None
        stored[ti] = new
        if quiet:
            changed = False
        expected.append((origin, ti, old if had else ("default", old), new, changed,
                         frozenset(active)))

    @staticmethod
    def make_dyn(d, H, listeners):
        if d["mech"] == "obs":
            if d.get("async"):
                return mk_async_obs(d["id"], H)
            return mk_obs(d["id"], H)
        if d.get("method"):
            listeners.append(Listener(H, d["id"]))
            return getattr(listeners[-1], "m%d" % d["arity"])
        return mk_otc(d["id"], d["arity"], H)

    @staticmethod
    def register(obj, traits, d, handler, remove):
        name = None if d["trait"] is None else traits[d["trait"]]["name"]
        if name is None and d["mech"] != "otc":
            name = "*"
        if d["mech"] == "otc":
            obj.on_trait_change(handler, name, remove=remove, dispatch=d["dispatch"],
                                priority=d.get("priority", False))
        else:
            obj.observe(handler, name, remove=remove, dispatch=d["dispatch"])

    def cleanup(self):
        from traits.api import pop_exception_handler
        from traits.observation import api as oapi
        s = getattr(self, "_sched", None)
        if s is not None:
            s.uninstall()
            self._sched = None
        p = getattr(self, "_pushed", 0)
        if p >= 2:
            oapi.pop_exception_handler()
        if p >= 1:
            pop_exception_handler()
        self._pushed = 0
        self._other = None
        ls = getattr(self, "_log_state", None)
        if ls is not None:
            import logging
            lg, h, prop, level, dis = ls
            lg.removeHandler(h)
            lg.propagate = prop
            logging.disable(dis)
            self._log_state = None

    # ------------------------------------------------------------------ shrinking
    def simplify_trace(self, trace):
        cfg = trace["config"]
        for key in ("dyn", "dec", "static", "ctor"):
            lst = cfg[key]
            for j in range(len(lst)):
                t = dict(trace)
                t["config"] = dict(cfg)
                t["config"][key] = lst[:j] + lst[j + 1:]
                yield t
        if cfg.get("any"):
            t = dict(trace)
            t["config"] = dict(cfg, any=None)
            yield t

    def simplify_op(self, op):
        if op["k"] == "trait_set" and len(op["items"]) > 1:
            for j in range(len(op["items"])):
                o = dict(op)
                o["items"] = op["items"][:j] + op["items"][j + 1:]
                yield o

    def coverage_report(self, cells):
        total = 0
        for k in ("Any", "Int", "Str", "List", "Instance"):
            total += 3 * 2      # modes x changed?
        return {"measure": "(kind, mode, value-pair class, counted-as-change, >=2 handlers) cells",
                "cells_hit": len(cells),
                "kind_mode_pairs_hit": len({(c[0], c[1]) for c in cells}),
                "value_pair_classes_hit": sorted({c[2] for c in cells})}


# ---------------------------------------------------------------------- handler factories

def mk_dec_otc(hid, H, attr):
    def m(self, obj, name, old, new):
        H(hid, name, old, new, obj)
    m.__name__ = m.__qualname__ = attr
    return m


def mk_dec_obs(hid, H, attr):
    def m(self, event):
        H(hid, event.name, event.old, event.new, event.object)
    m.__name__ = m.__qualname__ = attr
    return m


def mk_async_obs(hid, H):
    """An async observe handler.  The function runs at dispatch time (it only
    notes which op dispatched it) and returns the coroutine whose body is the
    handler proper, run later by the event loop."""
    def h(event):
        origin = H.origin()

        async def body():
            H(hid, event.name, event.old, event.new, event.object, origin=origin)
        return body()
    inspect.markcoroutinefunction(h)
    return h


def mk_obs(hid, H):
    def h(event):
        H(hid, event.name, event.old, event.new, event.object)
    return h


def mk_static(hid, arity, H, tn):
    if arity == 0:
        def f(self):
            H(hid, tn, MISSING, MISSING, self)
    elif arity == 1:
        def f(self, new):
            H(hid, tn, MISSING, new, self)
    elif arity == 2:
        def f(self, old, new):
            H(hid, tn, old, new, self)
    else:
        def f(self, name, old, new):
            H(hid, name, old, new, self)
    return f


def mk_any(hid, arity, H, names):
    if arity == 1:
        def f(self, name):
            if name in names:
                H(hid, name, MISSING, MISSING, self)
    elif arity == 2:
        def f(self, name, new):
            if name in names:
                H(hid, name, MISSING, new, self)
    else:
        def f(self, name, old, new):
            if name in names:
                H(hid, name, old, new, self)
    return f


def mk_otc(hid, arity, H):
    if arity == 0:
        def f():
            H(hid, MISSING, MISSING, MISSING)
    elif arity == 1:
        def f(new):
            H(hid, MISSING, MISSING, new)
    elif arity == 2:
        def f(name, new):
            H(hid, name, MISSING, new)
    elif arity == 3:
        def f(obj, name, new):
            H(hid, name, MISSING, new, obj)
    else:
        def f(obj, name, old, new):
            H(hid, name, old, new, obj)
    return f


class Listener:
    """Owner of a bound-method handler (exercises the method-listener path)."""

    def __init__(self, H, hid):
        self.H = H
        self.hid = hid

    def m0(self):
        self.H(self.hid, MISSING, MISSING, MISSING)

    def m1(self, new):
        self.H(self.hid, MISSING, MISSING, new)

    def m2(self, name, new):
        self.H(self.hid, name, MISSING, new)

    def m3(self, obj, name, new):
        self.H(self.hid, name, MISSING, new, obj)

    def m4(self, obj, name, old, new):
        self.H(self.hid, name, old, new, obj)


def safe_eq(a, b):
    try:
        return bool(a == b)
    except Exception:      # noqa: BLE001
        return False


def same_old(got, old):
    """``old`` is the previously stored object, or ("default", value) if the
    attribute had never been materialised."""
    if type(old) is tuple and len(old) == 2 and old[0] == "default":
        return got is old[1] or safe_eq(got, old[1])
    return got is old


def short(v):
    if type(v) is tuple and len(v) == 2 and v[0] == "default":
        return "default(%s)" % short(v[1])
    try:
        s = repr(v)
    except Exception:       # noqa: BLE001 - values that cannot be printed
        s = "<unprintable %s>" % type(v).__name__
    s = s.replace("\n", " ")
    return s if len(s) < 40 else s[:37] + "..."


def pair_class(old, new):
    if type(old) is tuple and len(old) == 2 and old[0] == "default":
        base = "first:"
        old = old[1]
    else:
        base = ""
    if old is new:
        return base + "identical"
    try:
        eq = bool(old == new)
    except Exception:      # noqa: BLE001
        return base + "cmp-raises"
    if eq:
        return base + "equal-not-identical"
    if new != new:
        return base + "nan"
    return base + "different"


PROP = Prop()
