"""Module-level (importable, picklable) base classes of the class zoo."""
from traits.api import HasTraits


class NodeBase(HasTraits):
    """Something importable for ``Instance(NodeBase)``; per-run subclasses carry
    the traits."""


class Plain(HasTraits):
    """A HasTraits object without any trait of interest."""
