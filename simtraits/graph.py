"""The graph world shared by C08, C09, C12, C16: a pool of interlinked HasTraits
nodes, a plain-Python model of the same graph, an op interpreter that applies
each op to both, and observe-expression ASTs with a from-scratch matcher.

Generation consults only the model; the executor keeps model and objects in
step and cross-checks their structure after every op.
"""
import gc
import weakref

from traits.api import (HasTraits, Int, Str, Instance, List, Dict, Set, Any,
                        Property, cached_property, observe as observe_dec)

from .core import Violation, HarnessError, sut
from . import values
from .props import c05, c06, c07
from .zoo import NodeBase

UNSET = "<unset>"

CUR = {"world": None}


# ---------------------------------------------------------------------------
# system-under-test node classes (static: no class-level state is ever mutated)

class Node(NodeBase):
    uid = Int()
    value = Int()
    label = Str(tag=True)
    # (both object links carry the metadata 'kid': '+kid' as a link step matches them)
    child = Instance(NodeBase, kid=True)
    lazy = Instance(NodeBase, kid=True)
    children = List(Instance(NodeBase))
    table = Dict(Str, Instance(NodeBase))
    group = Set(Instance(NodeBase))
    grid = List(List(Instance(NodeBase)))
    shelf = Dict(Str, List(Instance(NodeBase)))

    def _lazy_default(self):
        w = CUR["world"]
        if w is None or not w.lazy_enabled:
            return None
        return w.lazy_default(self)

    def __hash__(self):
        # A constant: deterministic under any PYTHONHASHSEED and address layout
        # (set order is insertion order), and - unlike a hash computed from uid -
        # valid while the object is being unpickled or deep-copied inside a cycle
        # (a set is refilled before the state of its members is restored; a hash
        # read from restorable state would file the member under the wrong bucket,
        # which is Python's behaviour for any such class and nothing traits decides)
        return 17

    def __repr__(self):
        return "N%d" % self.uid


class EqNode(Node):
    """A "value object": equality by ``eqkey`` (not identity), so that a link
    can be re-assigned a distinct object that compares equal to the old one.
    The hash is the constant of all node classes, so equal nodes are one member
    of a set."""
    eqkey = Int()

    def __eq__(self, other):
        return isinstance(other, EqNode) and other.eqkey == self.eqkey

    def __ne__(self, other):
        return not self.__eq__(other)

    __hash__ = Node.__hash__

    def __repr__(self):
        return "E%d" % self.uid


class ValuelessNode(NodeBase):
    """A node class that lacks ``value`` (registration failure fault)."""
    uid = Int()
    label = Str(tag=True)
    child = Instance(NodeBase, kid=True)
    children = List(Instance(NodeBase))

    __hash__ = Node.__hash__

    def __repr__(self):
        return "V%d" % self.uid


class LooseNode(NodeBase):
    """A node whose ``children`` link is untyped and may hold a plain list
    (non-container where a container is required)."""
    uid = Int()
    value = Int()
    label = Str(tag=True)
    child = Instance(NodeBase, kid=True)
    children = Any()

    __hash__ = Node.__hash__

    def __repr__(self):
        return "L%d" % self.uid


NODE_CLASSES = {"Node": Node, "EqNode": EqNode, "ValuelessNode": ValuelessNode,
                "LooseNode": LooseNode}


# ---------------------------------------------------------------------------
# the model

class MNode:
    __slots__ = ("uid", "cls", "value", "label", "child", "lazy", "children", "table",
                 "group", "grid", "shelf", "extra", "has_extra", "eqkey", "extra_default", "tagged",
                 "has_tagged")

    def __init__(self, uid, cls="Node"):
        self.uid = uid
        self.cls = cls
        self.eqkey = (uid % 2) if cls == "EqNode" else None
        self.value = UNSET
        self.label = UNSET
        self.child = UNSET
        self.lazy = UNSET
        self.children = UNSET
        self.table = UNSET
        self.group = UNSET
        self.grid = UNSET
        self.shelf = UNSET
        self.extra = UNSET
        self.has_extra = False
        self.extra_default = None      # constant default object of the added trait
        self.tagged = UNSET            # instance trait Int(tag=True), added with add_trait
        self.has_tagged = False

    def __hash__(self):
        return 7          # constant, as for the objects: same set/dict semantics

    def __eq__(self, other):
        # mirrors the objects: identity, or equality by key for "value objects"
        if self is other:
            return True
        return (self.eqkey is not None and isinstance(other, MNode)
                and other.eqkey == self.eqkey)

    def __ne__(self, other):
        return not self.__eq__(other)

    def __repr__(self):
        return "M%d" % self.uid

    @property
    def full(self):
        """Has the full set of links/containers of ``Node``."""
        return self.cls in ("Node", "PNode", "EqNode")

    def traits(self):
        names = ["uid", "value", "label", "child", "lazy", "children", "table", "group", "grid",
                 "shelf"]
        if self.cls == "ValuelessNode":
            names = ["uid", "label", "child", "children"]
        elif self.cls == "LooseNode":
            names = ["uid", "value", "label", "child", "children"]
        if self.has_extra:
            names.append("extra")
        if self.has_tagged:
            names.append("tagged")
        return names

    def get(self, name):
        return getattr(self, name)


class MList(list):
    """Model container with identity (a new object per reassignment)."""
    __slots__ = ()
    __hash__ = object.__hash__


class MDict(dict):
    __slots__ = ()
    __hash__ = object.__hash__


class MSet(set):
    __slots__ = ()
    __hash__ = object.__hash__


LINKS = ("child", "lazy", "extra")
CONTAINERS = {"children": "list", "table": "dict", "group": "set", "grid": "list",
              "shelf": "dict"}


# ---------------------------------------------------------------------------
# expressions: AST, rendering, matching

# An expression is a list of branches; a branch is a list of steps; a step is
#   ("t", name, notify)          named trait
#   ("items", None, notify)      generic 'items' (text) / typed *_items (expr objects)
#   ("meta", "tag", notify)      +tag
#   ("any", None, True)          *   (terminal only)
#   ("opt", name, notify)        trait(name, optional=True)  (expression objects only)

LINK_STEPS = [
    [("t", "child")],
    [("t", "child")],
    [("t", "lazy")],
    [("t", "children"), ("items", None)],
    [("t", "children"), ("items", None)],
    [("t", "table"), ("items", None)],
    [("t", "group"), ("items", None)],
    [("t", "grid"), ("items", None), ("items", None)],
    [("t", "shelf"), ("items", None), ("items", None)],
    # a filtered step that yields SEVERAL link traits (and so several objects) per object
    [("meta", "kid")],
]
LEAVES = [
    [("t", "value")], [("t", "value")], [("t", "value")], [("t", "label")],
    [("meta", "tag")], [("any", None)], [],
]


def gen_branch(r, max_links=3, quiet_rate=0.2, allow_opt=False):
    nlinks = r.choice([0, 1, 1, 1, 2, 2, 3][:2 + 2 * max_links])
    steps = []
    for _ in range(nlinks):
        if allow_opt and r.random() < 0.3:
            ls = [("opt", "extra")]
        else:
            ls = r.choice(LINK_STEPS)
        for (k, n) in ls:
            steps.append([k, n, r.random() >= quiet_rate])
    leaf = r.choice(LEAVES)
    if not steps and not leaf:
        leaf = [("t", "value")]
    for (k, n) in leaf:
        steps.append([k, n, True])
    steps[-1][2] = True
    return steps


def gen_expr(r, allow_opt=False):
    nb = r.choice([1, 1, 1, 2])
    return [gen_branch(r, allow_opt=allow_opt) for _ in range(nb)]


def has_opt(expr):
    return any(s[0] == "opt" for b in expr for s in b)


def render_text(expr):
    """Mini-language text of an expression (no 'opt' steps)."""
    outs = []
    for b in expr:
        s = ""
        for j, (k, n, notify) in enumerate(b):
            if k == "t":
                tok = n
            elif k == "items":
                tok = "items"
            elif k == "meta":
                tok = "+" + n
            elif k == "any":
                tok = "*"
            else:
                raise HarnessError("cannot render %r as text" % (k,))
            s += tok
            if j < len(b) - 1:
                s += "." if notify else ":"
        outs.append(s)
    # top-level parallel branches are written without brackets: the grammar
    # allows '*' only in terminal position, which a bracketed group is not
    return ", ".join(outs)


def render_obj(expr, typed_items=None):
    """ObserverExpression object.  ``typed_items``: per (branch, step) the
    container kind to use a typed ``*_items`` observer instead of the generic
    'items' (None: use the text parser for that branch)."""
    from traits.observation import expression as ex
    total = None
    for bi, b in enumerate(expr):
        e = None
        prev_cont = None
        for si, (k, n, notify) in enumerate(b):
            if k in ("t", "opt"):
                args = dict(notify=notify, optional=(k == "opt"))
                e = ex.trait(n, **args) if e is None else e.trait(n, **args)
                prev_cont = CONTAINERS.get(n)
                if n in ("grid", "shelf"):
                    prev_cont = n
            elif k == "items":
                kind = prev_cont
                if kind == "grid":
                    fn, prev_cont = "list_items", "list"
                elif kind == "shelf":
                    fn, prev_cont = "dict_items", "list"
                elif kind == "list":
                    fn, prev_cont = "list_items", None
                elif kind == "dict":
                    fn, prev_cont = "dict_items", None
                elif kind == "set":
                    fn, prev_cont = "set_items", None
                else:
                    raise HarnessError("items after a non-container step")
                e = getattr(ex, fn)(notify=notify) if e is None else getattr(e, fn)(notify=notify)
            elif k == "meta":
                e = ex.metadata(n, notify=notify) if e is None else e.metadata(n, notify=notify)
            elif k == "any":
                e = ex.anytrait(notify=notify) if e is None else e.anytrait(notify=notify)
            else:
                raise HarnessError(k)
        total = e if total is None else (total | e)
    return total


def _elements(c):
    if isinstance(c, dict):
        return list(c.values())
    return list(c)


def _step_objects(o, step):
    """-> (observables matched at this step on object/container ``o``,
           objects handed to the next step)"""
    k, n, _ = step
    obs = []
    nxt = []
    if k in ("t", "opt"):
        if isinstance(o, MNode) and n in o.traits():
            obs.append(("t", o, n))
            v = o.get(n)
            if v is not UNSET and v is not None:
                nxt.append(v)
    elif k == "items":
        if isinstance(o, (MList, MDict, MSet)):
            obs.append(("c", o))
            nxt.extend(_elements(o))
        # generic 'items' on a HasTraits object: trait named 'items' (none here)
    elif k == "meta" and n == "kid":
        if isinstance(o, MNode):
            for n2 in ("child", "lazy"):
                if n2 in o.traits():
                    obs.append(("t", o, n2))
                    v = o.get(n2)
                    if v is not UNSET and v is not None:
                        nxt.append(v)
    elif k == "meta":
        if isinstance(o, MNode) and "label" in o.traits():
            obs.append(("t", o, "label"))
            # a Str value is never followed further
        if isinstance(o, MNode) and o.has_tagged:
            # an instance trait that carries the metadata (added before or after
            # the registration)
            obs.append(("t", o, "tagged"))
    elif k == "any":
        if isinstance(o, MNode):
            for n2 in o.traits():
                obs.append(("t", o, n2))
            # '*' also matches the built-in event traits of HasTraits
            obs.append(("t", o, "trait_added"))
    return obs, nxt


def match(expr, root):
    """From-scratch matching: -> (set of notifying observables,
    set of all observables, level-aliasing flag)."""
    notifying = set()
    everything = set()
    alias = False
    for b in expr:
        seen = {}
        objs = [root]
        for depth, step in enumerate(b):
            nxt_all = []
            for o in objs:
                obs, nxt = _step_objects(o, step)
                for ob in obs:
                    key = (ob[0], id(ob[1])) + tuple(ob[2:])
                    if seen.setdefault(key, depth) != depth:
                        alias = True
                    everything.add(key)
                    if step[2]:
                        notifying.add(key)
                nxt_all.extend(nxt)
            objs = nxt_all
    return notifying, everything, alias


def match_counts(expr, root):
    """How many (branch, path) walks reach each observable."""
    from collections import Counter
    out = Counter()
    for b in expr:
        objs = [root]
        for step in b:
            nxt_all = []
            for o in objs:
                obs, nxt = _step_objects(o, step)
                for ob in obs:
                    out[(ob[0], id(ob[1])) + tuple(ob[2:])] += 1
                nxt_all.extend(nxt)
            objs = nxt_all
    return out


def nonterminal_keys(expr, root):
    """Observables matched at a step that is not the last of its branch, i.e.
    those whose change makes the maintainers re-walk part of the graph."""
    out = set()
    for b in expr:
        objs = [root]
        for depth, step in enumerate(b):
            nxt_all = []
            for o in objs:
                obs, nxt = _step_objects(o, step)
                if depth < len(b) - 1:
                    for ob in obs:
                        out.add((ob[0], id(ob[1])) + tuple(ob[2:]))
                nxt_all.extend(nxt)
            objs = nxt_all
    return out


OP_ATTR = {"set_child": "child", "set_lazy": "lazy", "read_lazy": "lazy",
           "set_children": "children", "children_same": "children", "list": "children",
           "set_table": "table", "dict": "table", "set_group": "group", "set": "group",
           "set_grid": "grid", "grid_inner": "grid", "grid_outer": "grid",
           "set_shelf": "shelf", "shelf_inner": "shelf", "shelf_outer": "shelf",
           "set_extra": "extra", "add_trait": "extra", "read_extra": "extra", "read": None,
           "del_attr": None, "redefine": None, "add_tagged": "tagged"}


def gen_detached_op(r, npool):
    return {"k": "detached", "i": r.randrange(4),
            "ops": {"list": gen_list_inner(r, npool), "dict": gen_dict_inner(r, npool),
                    "set": gen_set_inner(r, npool)}}


def inflight_keys(world, op):
    """Keys of the observables an op is about to change (for the rule that
    re-entrant actions must not conflict with the change being dispatched):
    the trait for an assignment, the container for an in-place mutation."""
    k = op["k"]
    if k == "probe" or k not in OP_ATTR:
        return set()
    attr = OP_ATTR[k] or op.get("name")
    m = world.mnodes[world.idx(op.get("o", 0))]
    if k in ("list", "dict", "set", "grid_outer", "grid_inner", "shelf_outer", "shelf_inner"):
        v = m.get(attr) if attr in m.traits() else UNSET
        if not isinstance(v, (MList, MDict, MSet)):
            return {("t", id(m), attr)}       # default about to be materialised
        if k == "grid_inner":
            return {("c", id(v[op["row"] % len(v)]))} if v else set()
        if k == "shelf_inner":
            return {("c", id(v[sorted(v)[op["row"] % len(v)]]))} if v else set()
        return {("c", id(v))}
    keys = {("t", id(m), attr)}
    if k in ("add_trait", "add_tagged"):
        keys.add(("t", id(m), "trait_added"))
    return keys


def tkey(mnode, name):
    return ("t", id(mnode), name)


def ckey(mcont):
    return ("c", id(mcont))


# ---------------------------------------------------------------------------
# the world: objects + model + op interpreter

class Change:
    """What an op changed, for the oracles."""
    __slots__ = ("kind", "mobj", "name", "mcont", "obj", "cont", "changed", "old", "new",
                 "before", "after", "ckind")

    def __init__(self, kind, **kw):
        self.kind = kind
        for s in self.__slots__[1:]:
            setattr(self, s, kw.get(s))


class World:
    """Objects + model + op interpreter.  With ``sut_on=False`` the interpreter
    touches only the model (used for dry runs on a cloned model, e.g. to
    evaluate the level-aliasing predicate of an op before executing it)."""

    def __init__(self, env, npool=3, classes=None, sut_on=True, ctor_value=None):
        self.env = env
        self.sut_on = sut_on
        self.nodes = []       # SUT objects (parallel to mnodes)
        self.mnodes = []
        self.by_uid = {}      # uid -> [node | weakref | None, mnode]
        self.next_uid = 0
        self.fresh_ctr = 1000
        self.dropped = []
        self.pending_lazy = None
        self.lazy_enabled = True
        self.allow_k3 = False
        self.del_enabled = False     # 'del node.trait' ops (C08 turns them on)
        self.redefine_enabled = False
        self.detached_enabled = False
        self.detached = []           # (kind, trait name, replaced container, its model)
        self.ctor_value = ctor_value
        if sut_on:
            CUR["world"] = self
        classes = classes or []
        self.default_cls = "Node"
        if isinstance(classes, str):
            self.default_cls, classes = classes, []
        for i in range(npool):
            self.new_node(classes[i] if i < len(classes) else self.default_cls)

    def close(self):
        del self.detached[:]
        if self.sut_on:
            CUR["world"] = None
            values.OBJECTS.clear()

    def dry_clone(self):
        """A model-only copy of this world (same uids, same counters)."""
        w = World.__new__(World)
        w.env = None
        w.sut_on = False
        new = {uid: MNode(uid, nm[1].cls) for uid, nm in self.by_uid.items()}

        def mp(x):
            if x is UNSET or x is None:
                return x
            return new[x.uid]
        for uid, (n, m) in self.by_uid.items():
            c = new[uid]
            c.value, c.label, c.has_extra = m.value, m.label, m.has_extra
            c.tagged, c.has_tagged = m.tagged, m.has_tagged
            c.child, c.lazy, c.extra = mp(m.child), mp(m.lazy), mp(m.extra)
            c.extra_default = mp(m.extra_default)
            if m.children is not UNSET:
                c.children = MList(new[x.uid] for x in m.children)
            if m.table is not UNSET:
                c.table = MDict((a, new[b.uid]) for a, b in m.table.items())
            if m.group is not UNSET:
                c.group = MSet(new[x.uid] for x in m.group)
            if m.grid is not UNSET:
                c.grid = MList(MList(new[x.uid] for x in row) for row in m.grid)
            if m.shelf is not UNSET:
                c.shelf = MDict((a, MList(new[x.uid] for x in row))
                                for a, row in m.shelf.items())
        w.mnodes = [new[m.uid] for m in self.mnodes]
        w.nodes = [None] * len(w.mnodes)
        w.by_uid = {uid: [None, c] for uid, c in new.items()}
        w.next_uid = self.next_uid
        w.fresh_ctr = self.fresh_ctr
        w.dropped = []
        w.pending_lazy = None
        w.default_cls = self.default_cls
        w.lazy_enabled = self.lazy_enabled
        w.allow_k3 = self.allow_k3
        w.del_enabled = self.del_enabled
        w.redefine_enabled = self.redefine_enabled
        w.detached_enabled = False
        w.detached = []
        w.ctor_value = self.ctor_value
        w.pinned_uids = set(getattr(self, "pinned_uids", ()))
        return w

    # -- nodes -------------------------------------------------------------------
    def new_node(self, cls="Node", pooled=True):
        uid = self.next_uid
        self.next_uid += 1
        n = None
        if self.sut_on:
            klass = NODE_CLASSES[cls]
            if cls == "EqNode":
                n = klass(uid=uid, eqkey=uid % 2)
            elif self.ctor_value is not None and cls in ("PNode", "Node"):
                # a value handed to the constructor: class-level handlers run (and may
                # read defaults) while the object is still being constructed
                n = klass(uid=uid, value=self.ctor_value)
            else:
                n = klass(uid=uid)
        m = MNode(uid, cls)
        if self.ctor_value is not None and cls in ("PNode", "Node"):
            m.value = self.ctor_value
        self.by_uid[uid] = [n, m]
        if pooled:
            self.nodes.append(n)
            self.mnodes.append(m)
        return n, m

    def lazy_default(self, owner):
        """Called by Node._lazy_default (system under test computing the
        default): the new node joins the pool on both sides."""
        n, m = self.new_node(self.default_cls, pooled=True)
        self.env.log("lazy-default", (owner.uid, n.uid))
        self.env.probe("lazy-default-ran")
        return n

    def getter_ran(self, obj, name):
        f = getattr(self, "on_getter", None)
        if f is not None:
            f(obj, name)

    def alive_uids(self):
        return [uid for uid in sorted(self.by_uid) if self.node(uid) is not None]

    def rebind(self, new_nodes):
        """Persist/restore: replace every object by its restored copy
        (``new_nodes``: uid -> object); the model is unchanged."""
        for uid, n in new_nodes.items():
            self.by_uid[uid][0] = n
        self.nodes = [new_nodes[m.uid] for m in self.mnodes]

    def m_of(self, node):
        if node is None:
            return None
        return self.by_uid[node.uid][1]

    def node(self, uid):
        n = self.by_uid[uid][0]
        if isinstance(n, weakref.ref):
            n = n()
        return n

    def n_of(self, mnode):
        if mnode is None:
            return None
        return self.node(mnode.uid)

    def model(self, uid):
        return self.by_uid[uid][1]

    def fresh_value(self):
        self.fresh_ctr += 1
        return self.fresh_ctr

    def idx(self, i):
        return i % len(self.mnodes)

    # -- ref resolution ----------------------------------------------------------
    def resolve_ref(self, ref):
        """{"n": j} | {"fresh": 1} | {"none": 1} -> uid or None"""
        if "none" in ref:
            return None
        if "fresh" in ref:
            n, m = self.new_node(ref.get("cls", self.default_cls))
            if ref.get("tagged"):
                # the new object gets an instance trait carrying metadata BEFORE it
                # is put anywhere
                m.has_tagged = True
                if self.sut_on:
                    r, e = sut(n.add_trait, "tagged", Int(tag=True))
                    if e is not None:
                        raise Violation("graph.op-raised", "add_trait on a fresh node raised %r"
                                        % (e,), None)
            return m.uid
        return self.mnodes[self.idx(ref["n"])].uid

    def resolve_specs(self, obj):
        """Deep-copy an op, replacing node refs inside value specs by
        {"t": "obj", "i": uid}."""
        if isinstance(obj, dict):
            if obj.get("t") == "ref":
                uid = self.resolve_ref(obj)
                if uid is None:
                    return {"t": "bad"}
                return {"t": "obj", "i": uid}
            return {k: self.resolve_specs(v) for k, v in obj.items()}
        if isinstance(obj, list):
            return [self.resolve_specs(x) for x in obj]
        return obj

    def sut_objects(self):
        values.OBJECTS.clear()
        for uid in self.by_uid:
            n = self.node(uid)
            if n is not None:
                values.OBJECTS[uid] = n

    def model_objects(self):
        values.OBJECTS.clear()
        for uid, (n, m) in self.by_uid.items():
            values.OBJECTS[uid] = m

    def m_container(self, m, name):
        """Model container of m.name, materialising the (empty) default."""
        c = m.get(name)
        if c is UNSET:
            c = {"list": MList, "dict": MDict, "set": MSet}[CONTAINERS[name]]()
            setattr(m, name, c)
        return c

    # -- the op interpreter --------------------------------------------------------
    def apply(self, op, step):
        """Apply ``op`` to objects and model; return a list of Change."""
        fn = getattr(self, "op_" + op["k"], None)
        if fn is None:
            raise HarnessError("unknown graph op %r" % op["k"])
        return fn(op, step)

    def _target(self, op):
        i = self.idx(op.get("o", 0))
        return (self.nodes[i] if self.sut_on else None), self.mnodes[i]

    def _do(self, step, what, f, *a):
        """Run a call into the system under test that the model says succeeds."""
        r, e = sut(f, *a)
        if e is not None:
            raise Violation("graph.op-raised", "%s raised %r" % (what, e), step)
        return r

    def op_probe(self, op, step):
        n, m = self._target(op)
        name = op.get("name", "value")
        if name not in m.traits() or name not in ("value", "label", "tagged"):
            return []
        v = self.fresh_value()
        new = v if name != "label" else "s%d" % v
        old = m.get(name)
        if old is UNSET:
            old = 0 if name != "label" else ""
        setattr(m, name, new)
        if self.sut_on:
            self._do(step, "N%d.%s = %r" % (m.uid, name, new), setattr, n, name, new)
        return [Change("trait", mobj=m, obj=n, name=name, changed=True, old=old, new=new)]

    def _assign_link(self, op, step, name):
        n, m = self._target(op)
        if name not in m.traits():
            return []
        uid = self.resolve_ref(op["v"])
        newm = None if uid is None else self.model(uid)
        oldm = m.get(name)
        dflt = m.extra_default if name == "extra" else None
        if oldm is UNSET and dflt is not None and newm is dflt and not self.allow_k3:
            # known finding K3: assigning the constant default object itself to a
            # never-read trait stores it without telling the observers
            if self.env is not None:
                self.env.probe("k3-guard-skip")
            return []
        setattr(m, name, newm)
        newn = old = None
        nodes_before = len(self.nodes)
        if self.sut_on:
            newn = None if uid is None else self.node(uid)
            old = n.__dict__.get(name, UNSET)
            self._do(step, "N%d.%s = %r" % (m.uid, name, newn), setattr, n, name, newn)
        if oldm is UNSET and dflt is not None:
            # the old value is the constant default object
            changed, old_val = not (newm is not None and dflt == newm), ("any",)
        elif oldm is UNSET:
            if name == "lazy":
                # whether the default method runs to provide 'old' depends on the
                # presence of listeners; either way the event (if any) reports a change
                changed, old_val = True, ("any",)
                if len(self.nodes) > nodes_before:
                    # the default method did run: the old value is the node it made
                    # (which a "value object" assigned now may equal)
                    dm = self.mnodes[-1]
                    changed = newm is None or not (dm == newm)
            else:
                changed, old_val = newm is not None, None
        else:
            # (Instance traits compare by equality: identity for plain nodes)
            changed = not (oldm is newm or (oldm is not None and newm is not None
                                            and oldm == newm))
            old_val = old
        return [Change("trait", mobj=m, obj=n, name=name, changed=changed, old=old_val, new=newn)]

    def op_set_child(self, op, step):
        return self._assign_link(op, step, "child")

    def op_set_lazy(self, op, step):
        return self._assign_link(op, step, "lazy")

    def op_set_extra(self, op, step):
        n, m = self._target(op)
        if not m.has_extra:
            return []
        return self._assign_link(op, step, "extra")

    def op_add_trait(self, op, step):
        n, m = self._target(op)
        if m.has_extra:
            return []
        duid = self.resolve_ref(op["dflt"]) if "dflt" in op else None
        like = None
        if "like" in op:
            # the ready-made definition of another node's instance trait is handed
            # to add_trait (each object must still get a trait of its own)
            lm = self.mnodes[self.idx(op["like"])]
            if lm is not m and lm.has_extra:
                like = lm
                duid = None if lm.extra_default is None else lm.extra_default.uid
        m.has_extra = True
        if duid is not None:
            # a trait whose *constant* default is an existing observable object
            # (shared, not created per owner): nothing is stored until it is read
            m.extra_default = self.model(duid)
        if self.sut_on:
            if like is not None:
                tdef = self.n_of(like).trait("extra")
            else:
                tdef = Instance(NodeBase) if duid is None else Any(self.node(duid))
            self._do(step, "add_trait", n.add_trait, "extra", tdef)
        return [Change("trait_added", mobj=m, obj=n, name="extra", changed=True)]

    def op_add_tagged(self, op, step):
        """``node.add_trait("tagged", Int(tag=True))``: an instance trait that
        carries the metadata ``+tag`` filters on."""
        n, m = self._target(op)
        if m.has_tagged:
            return []
        m.has_tagged = True
        m.tagged = UNSET
        if self.sut_on:
            tdef = Int(tag=True)
            if "like" in op:
                lm = self.mnodes[self.idx(op["like"])]
                if lm is not m and lm.has_tagged:
                    tdef = self.n_of(lm).trait("tagged")
            self._do(step, "add_trait", n.add_trait, "tagged", tdef)
        return [Change("trait_added", mobj=m, obj=n, name="tagged", changed=True)]

    def op_read_extra(self, op, step):
        """First read materialises the (constant) default: silent for handlers,
        but from then on the default object is reachable along the trait."""
        n, m = self._target(op)
        if not m.has_extra:
            return []
        if m.extra is UNSET:
            m.extra = m.extra_default
        if self.sut_on:
            v = self._do(step, "reading N%d.extra" % m.uid, getattr, n, "extra")
            if self.m_of(v) is not m.extra:
                raise Violation("graph.structure", "N%d.extra reads %r, model %r"
                                % (m.uid, v, m.extra), step)
        return [Change("read", mobj=m, obj=n if self.sut_on else None, name="extra",
                       changed=False)]

    def op_read_lazy(self, op, step):
        n, m = self._target(op)
        if "lazy" not in m.traits():
            return []
        if not self.sut_on:
            if m.lazy is UNSET:
                _, m.lazy = self.new_node(self.default_cls)
            return [Change("read", mobj=m, name="lazy", changed=False)]
        before = len(self.nodes)
        v = self._do(step, "reading N%d.lazy" % m.uid, getattr, n, "lazy")
        if m.lazy is UNSET:
            if len(self.nodes) != before + 1 or v is not self.nodes[-1]:
                raise Violation("graph.lazy-default", "first read of lazy did not run the "
                                "default method exactly once", step)
            m.lazy = self.mnodes[-1]
        elif self.m_of(v) is not m.lazy or len(self.nodes) != before:
            raise Violation("graph.lazy-default", "lazy re-read gave another object or re-ran "
                            "the default method", step)
        return [Change("read", mobj=m, obj=n, name="lazy", changed=False)]

    def op_read(self, op, step):
        """Materialise a container default by reading it."""
        n, m = self._target(op)
        name = op["name"]
        if name not in m.traits() or name not in CONTAINERS or not m.full:
            return []
        self.m_container(m, name)
        if self.sut_on:
            self._do(step, "reading %s" % name, getattr, n, name)
        return [Change("read", mobj=m, obj=n, name=name, changed=False)]

    def _assign_container(self, op, step, name, uids_shape, mk_sut, mk_model):
        n, m = self._target(op)
        if name not in m.traits() or not m.full:
            return []
        oldm = m.get(name)
        newm = mk_model()
        setattr(m, name, newm)
        base = oldm if oldm is not UNSET else type(newm)()
        changed = self._cont_differs(base, newm)
        old = new = None
        if self.sut_on:
            old = n.__dict__.get(name, UNSET)
            value = mk_sut()
            self._do(step, "N%d.%s = %r" % (m.uid, name, value), setattr, n, name, value)
            new = n.__dict__.get(name)
            if self.detached_enabled and old is not UNSET and oldm is not UNSET \
                    and name in ("children", "table", "group") and old is not new:
                # keep an alias to the replaced container: it can still be mutated
                self.detached.append((CONTAINERS[name], name, old, oldm))
                del self.detached[:-4]
            if old is UNSET:
                old = ("default",)
        return [Change("trait", mobj=m, obj=n, name=name, changed=changed, old=old, new=new)]

    def op_detached(self, op, step):
        """Mutate a container that WAS the value of a trait and has been replaced
        there (through an alias kept by the caller): nothing of it is reachable any
        more, whatever is put into it is not reachable either."""
        if not self.detached or not self.sut_on:
            return []
        ckind, name, cont, mcont = self.detached[op["i"] % len(self.detached)]
        return self._mutate(dict(op, o=0), step, name, ckind,
                            lambda n: cont, lambda m: mcont, op["ops"][ckind])

    def op_redefine(self, op, step):
        """``node.add_trait(name, <an equivalent definition>)`` on a name the node
        has already: the stored value, the hooks and the handlers stay as they
        are, nothing is announced."""
        n, m = self._target(op)
        name = op["name"]
        if not self.redefine_enabled or name not in m.traits() or (name in CONTAINERS and not m.full):
            return []
        if self.sut_on:
            tdef = {"value": lambda: Int(), "child": lambda: Instance(NodeBase, kid=True),
                    "children": lambda: List(Instance(NodeBase)),
                    "table": lambda: Dict(Str, Instance(NodeBase)),
                    "group": lambda: Set(Instance(NodeBase))}[name]()
            self._do(step, "N%d.add_trait(%r, ...)" % (m.uid, name), n.add_trait, name, tdef)
        return []

    def op_del_attr(self, op, step):
        """``del node.<link or container trait>``: back to the default.  Nothing
        happens when nothing is stored.  With listeners on the trait the default
        is materialised at once (to report it as the new value), otherwise the
        attribute stays unset until the next read - the interpreter looks at the
        object's dictionary to see which (as for lazy defaults)."""
        n, m = self._target(op)
        name = op["name"]
        if name not in m.traits() or (name in CONTAINERS and not m.full) or not self.del_enabled:
            return []
        oldm = m.get(name)
        if oldm is UNSET:
            return []
        empty = {"children": MList, "table": MDict, "group": MSet, "grid": MList, "shelf": MDict}
        if not self.sut_on:
            setattr(m, name, UNSET)
            return [Change("trait", mobj=m, name=name, changed=False)]
        old = n.__dict__.get(name, UNSET)
        self._do(step, "del N%d.%s" % (m.uid, name), delattr, n, name)
        new = n.__dict__.get(name, UNSET)
        if new is UNSET:
            setattr(m, name, UNSET)
            newm = None if name not in empty else empty[name]()
        else:
            if (name in empty and len(new) != 0) or (name not in empty and new is not None):
                raise Violation("graph.structure", "del N%d.%s left %r" % (m.uid, name, new), step)
            newm = None if name not in empty else empty[name]()
            setattr(m, name, newm)
        if name in empty:
            changed = self._cont_differs(oldm, newm)
        else:
            changed = oldm is not None
        return [Change("trait", mobj=m, obj=n, name=name, changed=changed, old=old,
                       new=None if new is UNSET else new)]

    @staticmethod
    def _cont_differs(a, b):
        if isinstance(a, list):
            return len(a) != len(b) or any(x != y for x, y in zip(a, b))
        return a != b

    def _uids(self, refs):
        return [u for u in (self.resolve_ref(v) for v in refs) if u is not None]

    def op_set_children(self, op, step):
        uids = self._uids(op["vs"])
        return self._assign_container(
            op, step, "children", uids,
            lambda: [self.node(u) for u in uids],
            lambda: MList(self.model(u) for u in uids))

    def op_children_same(self, op, step):
        n, m = self._target(op)
        if m.children is UNSET or not m.full:
            return []
        cur = list(m.children)
        return self._assign_container(
            op, step, "children", None,
            lambda: [self.n_of(x) for x in cur],
            lambda: MList(cur))

    def op_set_table(self, op, step):
        pairs = [(key, self.resolve_ref(v)) for key, v in op["pairs"]]
        pairs = [(a, b) for a, b in pairs if b is not None]
        return self._assign_container(
            op, step, "table", None,
            lambda: {a: self.node(b) for a, b in pairs},
            lambda: MDict((a, self.model(b)) for a, b in pairs))

    def op_set_group(self, op, step):
        uids = self._uids(op["vs"])
        return self._assign_container(
            op, step, "group", None,
            lambda: {self.node(u) for u in uids},
            lambda: MSet(self.model(u) for u in uids))

    def op_set_grid(self, op, step):
        rows = [self._uids(row) for row in op["rows"]]
        return self._assign_container(
            op, step, "grid", None,
            lambda: [[self.node(u) for u in row] for row in rows],
            lambda: MList(MList(self.model(u) for u in row) for row in rows))

    def op_set_shelf(self, op, step):
        rows = [(key, self._uids(row)) for key, row in op["pairs"]]
        return self._assign_container(
            op, step, "shelf", None,
            lambda: {key: [self.node(u) for u in row] for key, row in rows},
            lambda: MDict((key, MList(self.model(u) for u in row)) for key, row in rows))

    # container mutations ---------------------------------------------------------
    def _mutate(self, op, step, name, ckind, get_sut, get_model, inner_op):
        """Run a C05/C06/C07-style op on a container of objects and model."""
        n, m = self._target(op)
        if name not in m.traits() or not m.full:
            return []
        mcont = get_model(m)
        cont = None
        if self.sut_on:
            cont = self._do(step, "fetching N%d.%s" % (m.uid, name), get_sut, n)
        if mcont is None:
            return []
        if inner_op["k"] == "remove" and "at" in inner_op.get("v", {}):
            if not mcont:
                return []
            inner_op = dict(inner_op)
            inner_op["v"] = {"t": "obj", "i": mcont[inner_op["v"]["at"] % len(mcont)].uid}
        elif ckind == "set" and mcont:
            # item specs carrying "cur" name a current member (k-th by uid)
            members = sorted(mcont, key=lambda x: x.uid)

            def cur_members(x):
                if isinstance(x, dict):
                    if x.get("t") == "ref" and "cur" in x:
                        return {"t": "obj", "i": members[x["cur"] % len(members)].uid}
                    return {k: cur_members(v) for k, v in x.items()}
                if isinstance(x, list):
                    return [cur_members(v) for v in x]
                return x
            inner_op = cur_members(inner_op)
        elif ckind == "list" and mcont:
            # item specs carrying "at" name an object that is in the list now: the
            # mutation keeps / repeats / permutes current items (removed and added
            # in one event, with possibly different multiplicities)
            def cur_items(x):
                if isinstance(x, dict):
                    if x.get("t") == "ref" and "at" in x:
                        it = mcont[x["at"] % len(mcont)]
                        if isinstance(it, MNode):
                            return {"t": "obj", "i": it.uid}
                        return {k: v for k, v in x.items() if k != "at"}
                    return {k: cur_items(v) for k, v in x.items()}
                if isinstance(x, list):
                    return [cur_items(v) for v in x]
                return x
            inner_op = cur_items(inner_op)
        iop = self.resolve_specs(inner_op)
        if ckind == "list":
            before = list(mcont)
        elif ckind == "dict":
            before = dict(mcont)
        else:
            before = set(mcont)
        # model
        self.model_objects()
        try:
            if ckind == "list":
                trial = list(mcont)
                ret_m, val_exc, op_exc = c05.PROP.model_apply(trial, iop, values.raw)
            elif ckind == "dict":
                trial = dict(mcont)
                ret_m, val_exc, op_exc = c06.PROP.model_apply(trial, iop, values.raw, values.raw)
            else:
                trial = set(mcont)
                ret_m = None
                if iop["k"] == "pop":
                    val_exc, op_exc = None, ("KeyError" if not trial else None)
                    if not self.sut_on and trial:
                        trial.discard(min(trial, key=lambda x: x.uid))
                else:
                    val_exc, op_exc = c07.PROP.model_apply(trial, iop, values.raw)
        finally:
            if self.sut_on:
                self.sut_objects()
            else:
                values.OBJECTS.clear()
        if val_exc or op_exc:
            values.OBJECTS.clear()
            # ill-formed for the state it met: the graph world only means to run
            # well-formed ops; skipped without touching the object
            return []
        if self.sut_on:
            if ckind == "list":
                ret, e = c05.sut_list_apply(cont, iop)
            elif ckind == "dict":
                ret, e = c06.sut_dict_apply(cont, iop)
            else:
                ret, e = c07.sut_set_apply(cont, iop)
                if iop["k"] == "pop" and e is None:
                    trial.discard(self.m_of(ret))
            values.OBJECTS.clear()      # hold no strong references between ops
            if e is not None:
                raise Violation("graph.op-raised", "%s on N%d.%s raised %r"
                                % (iop["k"], m.uid, name, e), step)
        # commit in place (mutation preserves container identity)
        if ckind == "list":
            mcont[:] = trial
            after = list(mcont)
            changed = self._cont_differs(before, after)
        else:
            mcont.clear()
            mcont.update(trial)
            after = dict(mcont) if ckind == "dict" else set(mcont)
            changed = before != after
        return [Change(ckind, mobj=m, obj=n, name=name, mcont=mcont, cont=cont, changed=changed,
                       before=before, after=after, ckind=ckind)]

    def op_list(self, op, step):
        return self._mutate(op, step, "children", "list",
                            lambda n: n.children, lambda m: self.m_container(m, "children"),
                            op["op"])

    def op_dict(self, op, step):
        return self._mutate(op, step, "table", "dict",
                            lambda n: n.table, lambda m: self.m_container(m, "table"), op["op"])

    def op_set(self, op, step):
        return self._mutate(op, step, "group", "set",
                            lambda n: n.group, lambda m: self.m_container(m, "group"), op["op"])

    def op_grid_inner(self, op, step):
        def get_model(m):
            g = self.m_container(m, "grid")
            if not g:
                return None
            return g[op["row"] % len(g)]

        def get_sut(n):
            g = n.grid
            if not g:
                return None
            return g[op["row"] % len(g)]
        return self._mutate(op, step, "grid", "list", get_sut, get_model, op["op"])

    def op_grid_outer(self, op, step):
        """Outer-list mutation of grid: rows are given as lists of refs."""
        n, m = self._target(op)
        if "grid" not in m.traits():
            return []
        mg = self.m_container(m, "grid")
        g = None
        if self.sut_on:
            g = self._do(step, "reading grid", getattr, n, "grid")
        before = list(mg)
        kind = op["how"]
        if kind == "append":
            uids = self._uids(op["row_vs"])
            mg.append(MList(self.model(u) for u in uids))
            if self.sut_on:
                self._do(step, "grid.append", g.append, [self.node(u) for u in uids])
        elif kind == "pop":
            if not mg:
                return []
            j = op.get("i", 0) % len(mg)
            mg.pop(j)
            if self.sut_on:
                self._do(step, "grid.pop", g.pop, j)
        elif kind == "clear":
            del mg[:]
            if self.sut_on:
                self._do(step, "grid.clear", g.clear)
        else:
            raise HarnessError(kind)
        after = list(mg)
        return [Change("list", mobj=m, obj=n, name="grid", mcont=mg, cont=g,
                       changed=self._cont_differs(before, after), before=before, after=after,
                       ckind="list")]

    def op_shelf_inner(self, op, step):
        """A list mutation of one of the lists stored in ``shelf`` (the k-th key)."""
        def key_of(d):
            return sorted(d)[op["row"] % len(d)]

        def get_model(m):
            d = self.m_container(m, "shelf")
            if not d:
                return None
            return d[key_of(d)]

        def get_sut(n):
            d = n.shelf
            if not d:
                return None
            return d[key_of(d)]
        return self._mutate(op, step, "shelf", "list", get_sut, get_model, op["op"])

    def op_shelf_outer(self, op, step):
        """Dict mutation of ``shelf``: values are given as lists of refs (the
        dict stores its own list object for each)."""
        n, m = self._target(op)
        if "shelf" not in m.traits():
            return []
        md = self.m_container(m, "shelf")
        d = None
        if self.sut_on:
            d = self._do(step, "reading shelf", getattr, n, "shelf")
        before = dict(md)
        kind = op["how"]
        key = op.get("key", "a")
        uids = self._uids(op.get("row_vs", ()))
        if kind == "setitem":
            md[key] = MList(self.model(u) for u in uids)
            if self.sut_on:
                self._do(step, "shelf[%r] = row" % key, d.__setitem__, key,
                         [self.node(u) for u in uids])
        elif kind == "update":
            md[key] = MList(self.model(u) for u in uids)
            if self.sut_on:
                self._do(step, "shelf.update", d.update, {key: [self.node(u) for u in uids]})
        elif kind == "setdefault":
            if key not in md:
                md[key] = MList(self.model(u) for u in uids)
            if self.sut_on:
                self._do(step, "shelf.setdefault", d.setdefault, key,
                         [self.node(u) for u in uids])
        elif kind == "delitem":
            if key not in md:
                return []
            del md[key]
            if self.sut_on:
                self._do(step, "del shelf[%r]" % key, d.__delitem__, key)
        elif kind == "pop":
            md.pop(key, None)
            if self.sut_on:
                self._do(step, "shelf.pop", d.pop, key, None)
        elif kind == "clear":
            md.clear()
            if self.sut_on:
                self._do(step, "shelf.clear", d.clear)
        else:
            raise HarnessError(kind)
        after = dict(md)
        changed = (sorted(before) != sorted(after)
                   or any(before[a] is not after[a] for a in before))
        return [Change("dict", mobj=m, obj=n, name="shelf", mcont=md, cont=d,
                       changed=changed, before=before, after=after, ckind="dict")]

    def op_gc(self, op, step):
        if self.sut_on:
            gc.collect()
        return []

    def op_drop(self, op, step):
        """Release the harness' references to a pool node (never node 0)."""
        if len(self.mnodes) <= 1:
            return []
        i = self.idx(op["o"])
        if i == 0 or self.mnodes[i].uid in getattr(self, "pinned_uids", ()):
            return []
        m = self.mnodes.pop(i)
        n = self.nodes.pop(i)
        if self.sut_on:
            # keep only a weak view of the object from now on
            self.by_uid[m.uid][0] = weakref.ref(n)
            self.dropped.append((weakref.ref(n), m))
        del n
        return []

    # -- structure cross-check ---------------------------------------------------
    def check_structure(self, step, only=None):
        """The objects' graph equals the model graph (so that reachability
        computed on the model speaks about the objects)."""
        pairs = zip(self.nodes, self.mnodes) if only is None else only
        for n, m in pairs:
            d = n.__dict__
            for name in ("child", "lazy", "extra"):
                if name not in m.traits():
                    continue
                mv = m.get(name)
                sv = d.get(name, UNSET)
                if mv is UNSET:
                    if name != "lazy" and sv is not UNSET and sv is not None:
                        raise Violation("graph.structure", "N%d.%s materialised unexpectedly"
                                        % (n.uid, name), step)
                elif (sv is None or sv is UNSET) != (mv is None) or (
                        mv is not None and sv.uid != mv.uid):
                    raise Violation("graph.structure", "N%d.%s is %r, model %r"
                                    % (n.uid, name, sv, mv), step)
            if not m.full:
                continue
            for name, ck in CONTAINERS.items():
                mv = m.get(name)
                sv = d.get(name, UNSET)
                if mv is UNSET:
                    continue
                if sv is UNSET:
                    raise Violation("graph.structure", "N%d.%s not materialised" % (n.uid, name), step)
                if name == "grid":
                    ok = len(sv) == len(mv) and all(
                        [x.uid for x in a] == [y.uid for y in b] for a, b in zip(sv, mv))
                elif name == "shelf":
                    ok = ({a: [x.uid for x in b] for a, b in sv.items()}
                          == {a: [x.uid for x in b] for a, b in mv.items()})
                elif ck == "list":
                    ok = [x.uid for x in sv] == [y.uid for y in mv]
                elif ck == "dict":
                    ok = {a: b.uid for a, b in sv.items()} == {a: b.uid for a, b in mv.items()}
                else:
                    ok = {x.uid for x in sv} == {y.uid for y in mv}
                if not ok:
                    raise Violation("graph.structure", "N%d.%s holds %r, model %r"
                                    % (n.uid, name, sv, mv), step)


# ---------------------------------------------------------------------------
# op generation (consults only the model)

LIST_KINDS = ["append", "append", "insert", "extend", "delitem_i", "delitem_s", "setitem_i",
              "setitem_s", "pop", "pop_last", "remove", "clear", "reverse", "imul", "iadd"]
DICT_KINDS = ["setitem", "setitem", "delitem", "pop", "pop_default", "update_map",
              "update_pairs", "popitem", "clear", "setdefault"]
SET_KINDS = ["add", "add", "discard", "remove", "pop", "clear", "update", "ior", "iand", "isub",
             "ixor", "difference_update", "intersection_update",
             "symmetric_difference_update"]


def gen_ref(r, npool, fresh_rate=0.15, none_rate=0.0):
    x = r.random()
    if x < none_rate:
        return {"none": 1}
    if x < none_rate + fresh_rate:
        if r.random() < 0.2:
            # a new object that got an instance trait with metadata before it is
            # put anywhere
            return {"fresh": 1, "tagged": 1}
        return {"fresh": 1}
    return {"n": r.randrange(max(npool, 1) + 2)}


def ref_spec(r, npool, fresh_rate=0.15):
    d = gen_ref(r, npool, fresh_rate)
    d["t"] = "ref"
    return d


def gen_list_inner(r, npool):
    keep = r.random() < 0.3      # this op re-uses items that are in the list already

    def item():
        sp = ref_spec(r, npool)
        if keep and sp.get("t") == "ref" and r.random() < 0.7:
            sp["at"] = r.randrange(4)
        return sp
    if keep and r.random() < 0.3:
        # one event with the same object on both sides and a different number of
        # occurrences: lst[i:i+1] = [x, x] (x = lst[i]) or lst[i:i+2] = [x]
        i = r.choice([0, 0, -1, 1])
        grow = r.random() < 0.7
        width = 1 if grow else 2
        stop = i + width if i + width != 0 and i >= 0 else (None if i + width >= 0 else i + width)
        return {"k": "setitem_s", "s": [i, stop, None],
                "vs": [{"t": "ref", "n": r.randrange(npool + 1), "at": i}
                       for _ in range(r.choice([2, 2, 3]) if grow else 1)]}
    L = list(range(r.choice([0, 1, 2, 2, 3, 4])))     # stand-in for the unknown length
    op = c05.gen_list_op(r, L, item, LIST_KINDS)
    if op["k"] == "remove":
        op["v"] = {"t": "ref", "n": 0, "at": r.randrange(4)}
    if op["k"] == "imul":
        op["n"] = r.choice([0, 2, 2, 3])
    op.pop("noniter", None)
    return op


def gen_dict_inner(r, npool):
    def key(lookup=False):
        return {"t": "str", "v": r.choice(["a", "b", "c"])}

    def val():
        return ref_spec(r, npool)
    op, _, _ = c06.gen_dict_op(r, key, val, DICT_KINDS)
    op.pop("iter_raise_at", None)
    op.pop("iter_exc", None)
    return op


def gen_set_inner(r, npool):
    def item(validating):
        sp = ref_spec(r, npool, 0.15 if validating else 0.0)
        if r.random() < 0.25:
            sp["cur"] = r.randrange(4)      # a current member of the set (if it has any)
        return sp
    op, _ = c07.gen_set_op(r, item, False, SET_KINDS)
    for f in ("iter_raise_at", "iter_raise_arg", "iter_exc"):
        op.pop(f, None)
    return op


def gen_graph_op(r, npool, links_only=False):
    """One graph-mutating op, generated statelessly: node and position indices
    are reduced modulo the current sizes when the op is executed, ops that are
    ill-formed for the state they meet are skipped by the interpreter."""
    o = r.randrange(npool + 1)
    x = r.random()
    if not links_only and r.random() < 0.08:
        return gen_shelf_op(r, npool, o)
    if x < 0.22:
        return {"k": "set_child", "o": o, "v": gen_ref(r, npool, 0.2, 0.12)}
    if x < 0.27:
        return {"k": r.choice(["set_lazy", "read_lazy", "read_lazy"]), "o": o,
                "v": gen_ref(r, npool, 0.2, 0.1)}
    if x < 0.35:
        return {"k": "set_children", "o": o,
                "vs": [gen_ref(r, npool) for _ in range(r.randint(0, 3))]}
    if x < 0.38:
        return {"k": "children_same", "o": o}
    if x < 0.62:
        return {"k": "list", "o": o, "op": gen_list_inner(r, npool)}
    if x < 0.66:
        return {"k": "set_table", "o": o,
                "pairs": [[r.choice(["a", "b", "c"]), gen_ref(r, npool)]
                          for _ in range(r.randint(0, 3))]}
    if x < 0.76:
        return {"k": "dict", "o": o, "op": gen_dict_inner(r, npool)}
    if x < 0.79:
        return {"k": "set_group", "o": o,
                "vs": [gen_ref(r, npool) for _ in range(r.randint(0, 3))]}
    if x < 0.88:
        return {"k": "set", "o": o, "op": gen_set_inner(r, npool)}
    if x < 0.91:
        return {"k": "set_grid", "o": o,
                "rows": [[gen_ref(r, npool) for _ in range(r.randint(0, 2))]
                         for _ in range(r.randint(0, 2))]}
    if x < 0.95:
        return {"k": "grid_inner", "o": o, "row": r.randrange(3),
                "op": gen_list_inner(r, npool)}
    if x < 0.98:
        how = r.choice(["append", "append", "pop", "clear"])
        return {"k": "grid_outer", "o": o, "how": how, "i": r.randrange(3),
                "row_vs": [gen_ref(r, npool) for _ in range(r.randint(0, 2))]}
    return {"k": "read", "o": o, "name": r.choice(["children", "table", "group", "grid",
                                                   "shelf"])}


def gen_shelf_op(r, npool, o):
    """Ops on ``shelf`` (a Dict of Lists of nodes)."""
    y = r.random()
    if y < 0.2:
        return {"k": "set_shelf", "o": o,
                "pairs": [[r.choice(["a", "b", "c"]),
                           [gen_ref(r, npool) for _ in range(r.randint(0, 2))]]
                          for _ in range(r.randint(0, 2))]}
    if y < 0.6:
        return {"k": "shelf_outer", "o": o,
                "how": r.choice(["setitem", "setitem", "setitem", "update", "setdefault",
                                 "delitem", "pop", "clear"]),
                "key": r.choice(["a", "b", "c"]),
                "row_vs": [gen_ref(r, npool) for _ in range(r.randint(0, 2))]}
    return {"k": "shelf_inner", "o": o, "row": r.randrange(3), "op": gen_list_inner(r, npool)}
