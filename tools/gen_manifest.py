#!/usr/bin/env python3
"""Regenerate /verif/MANIFEST.json from the table below (single source)."""
import json
import os

HERE = os.path.dirname(os.path.dirname(os.path.abspath(__file__)))

TECH = "deterministic simulation with fault injection: "

CHECKS = {
    "C02": dict(
        level="exploration",
        text=("Seeded simulated histories of assignments (identical, equal-not-identical, NaN, "
              "raising ==, numpy, None, rejected values, trait_set with several names, default "
              "reads, constructor keywords, quiet trait_set) on a generated class (with 0-2 subclass "
              "levels, an overriding static handler, decorated handlers that carry a static "
              "handler's name) with traits over 7 kinds x 3 "
              "comparison modes and static, decorator and dynamic handlers of all three "
              "mechanisms (arity 0-4, bound methods, priority, dispatch same/ui/new). The "
              "simulator owns thread identity, the UI queue and dispatch='new' threads, so "
              "deferred calls are delivered late, reordered and after unregistration; handler "
              "exceptions are injected at the n-th invocation. Oracle over the recorded "
              "history: per assignment and per handler registered at that moment exactly one "
              "call iff the model says 'change', old/new identical to what was readable "
              "before/after, no call otherwise, exceptions contained and routed exactly once, "
              "every deferred call delivered exactly once after the last op. Sampling, not proof."),
        note=("Simulated threads interleave only at op and callback boundaries (traits promises "
              "nothing under data races); handler order is never asserted; where a comparison "
              "raises only agreement between mechanisms is required."
              " Later passes added: both static spellings (_x_changed/_x_fired) for one trait, add_trait of the same definition over a class trait."
              " Sixth pass: one ready-made definition object bound to two names / declared by an unrelated class with its own static handler, no call for a trait a handler was never registered for, runs under the library's default (logging) exception handlers with unprintable values."
              " Seventh pass: names that come into being through a wildcard definition, observe('*') handlers."),
        technique=TECH + "seeded assignment/registration/delivery histories with handler-fault "
                         "injection under a simulated scheduler, checked against a change model",
        design="4 (C02)"),
    "C04": dict(
        level="exploration",
        text=("Seeded simulated histories on a holder object with ten List/Dict/Set traits "
              "(Int, CInt, String(maxlen), bounded List, nested List(List(Int)), "
              "Dict(CInt, List(Int)), List(Instance), List(Checked) with a fault-point "
              "validator): every mutator of the quantifier on every container and on the nested "
              "inner containers with valid/convertible/invalid items and arbitrary indices and "
              "slices, argument shapes (list/tuple/generator/iterator/map), dict.update's "
              "keyword form, whole-value assignment, del of the trait, pickle restart and deepcopy/clone fork with the "
              "history continuing on the restored object. After every op all containers must "
              "equal a plain-Python model, every element must pass an independent predicate, "
              "and a rejected op must raise TraitError (or the built-in's own class when it is "
              "also ill-formed), change nothing and call none of the name / name_items / "
              "observe recorders. Sampling, not proof."),
        note=("Trusts the hand-written models of Int/CInt/String/List item conversion; a "
              "container whose owner died stops validating by design and is not checked."
              " Later passes added: Undefined as an element, a falsy owner object, the oracle that an inner list stored by an earlier operation is the observed one."
              " Sixth pass: containers inside Union(...) on an object without any recorder (first mutation adds the items companion), a Dict whose value class is named by a string, a bounded List whose implicit default is too short."
              " Seventh pass: a nested declared default with a collected predecessor instance; the holder class is built per run."),
        technique=TECH + "seeded op/fault/restart histories on container traits against plain "
                         "Python container models with bounds",
        design="4 (C04)"),
    "C05": dict(
        level="exploration",
        text=("Seeded simulated histories over all 16 TraitList mutators (all int indices / "
              "slice shapes around the current length, valid/coercible/invalid items, "
              "validator faults at the k-th item, raising iterables, raw notifiers and "
              "observers in generated order) refined op by op against a built-in list, with "
              "the replay law, index normal form, failure atomicity and silence checked on "
              "every event. Sampling, not proof; the finite (mutator, length<=5, index/slice "
              "class) table is measured for coverage in the evidence."),
        note=("Trusts CPython's list as the reference model and the harness validator; items "
              "are ints (total order); integer indices only, as the quantifier says."
              " Later passes added: a non-idempotent validator (stored items are never validated again), indices and multipliers that are no integers."
              " Seventh pass: a sibling list (built alike, from the same notifiers= list, or a copy) that must not hear this list nor be heard by it; raw notifiers that unhook others in the middle of a notification."),
        technique=TECH + "seeded op/fault histories refined against a built-in list model, "
                         "ddmin-shrunk JSON replay",
        design="4 (C05/C06/C07)"),
    "C06": dict(
        level="exploration",
        text=("Seeded simulated histories over every TraitDict mutator of the quantifier "
              "(mapping and pair-iterable update/|= with duplicate and coercible keys, "
              "malformed pairs, raising iterables, setdefault, pop with/without default, "
              "popitem, clear) with key/value validators that are fault points, refined op by "
              "op against a built-in dict; the reconstruction law is checked on the arguments "
              "seen by every raw notifier at call time, wherever it sits relative to "
              "observers, and on the merged DictChangeEvent of observers. Sampling, not proof."),
        note=("Trusts CPython's dict as the model; lookup-style operations are generated with "
              "already-valid keys only, so the two readings of 'same operations on validated "
              "keys' coincide."
              " Later passes added: mappings that are no dicts (UserDict, MappingProxyType, ChainMap) as arguments."
              " Seventh pass: a sibling dict (built alike or a copy); raw notifiers that unhook others in the middle of a notification."),
        technique=TECH + "seeded op/fault histories refined against a built-in dict model, "
                         "ddmin-shrunk JSON replay",
        design="4 (C05/C06/C07)"),
    "C07": dict(
        level="exploration",
        text=("Seeded simulated histories over every TraitSet mutator of the quantifier with "
              "overlapping, disjoint, coercible and invalid arguments, validator faults at the "
              "k-th item, raising iterables and non-set operands, refined against a built-in "
              "set with the delta and silence laws on every event; copy/deepcopy/pickle "
              "(protocols 2-5) act as restart events at arbitrary points, after which the copy "
              "must be equal, independent and still validating and the history continues on "
              "it. Sampling, not proof."),
        note=("Trusts CPython's set as the model; pop() is arbitrary so the model follows the "
              "system's choice; coercible spellings are fresh numbers (never collide with a "
              "member)."
              " Sixth pass: operand classes for the in-place operators (frozenset, TraitSet, set subclass)."
              " Seventh pass: a sibling set (built alike or a copy); raw notifiers that unhook others in the middle of a notification."),
        technique=TECH + "seeded op/fault/restart histories refined against a built-in set "
                         "model, ddmin-shrunk JSON replay",
        design="4 (C05/C06/C07)"),
    "C08": dict(
        level="exploration",
        text=("Seeded simulated histories on a pool of interlinked HasTraits nodes (links, "
              "List/Dict/Set/nested-list containers, lazy defaults, add_trait - also of a trait "
              "whose constant default is a pool node; a quarter of the worlds use value-object "
              "nodes with a key-based __eq__) with 1-3 handlers "
              "observing generated expressions (series '.'/':', parallel branches, items and typed "
              "*_items, +metadata, '*', optional traits; text and expression-object forms; "
              "dispatch same/ui under the simulated scheduler). Every graph op - link "
              "reassignment with sharing and cycles, every container mutator with duplicates "
              "(incl. slices that keep or repeat current items), equal-list reassignment, del of "
              "link and container traits, add_trait on a name the node has already, the same "
              "function registered from two roots, default materialisation, gc and drop of nodes - is "
              "followed by a probe of every pool object; a plain-Python model recomputes the "
              "matched set from scratch and each change must call each handler exactly once iff "
              "matched with notify on, with the right event object/name/old/new and container "
              "delta. Sampling, not proof."),
        note=("Level-aliasing cycles (known finding K1) and the assignment of a never-read "
              "trait's own constant default object (K3) are excluded by model-side guards and "
              "reported via stored witnesses; conflicting re-entrant mutation is not generated; "
              "containers never hold None."
              " Later passes added: a replaced container mutated through an alias; known findings K3 and K4 (constant default objects of never-read traits) are excluded by guards with stored witnesses."
              " Sixth pass: instance traits carrying metadata (added before/after insertion, or with another node's definition object), a Dict-of-Lists link (shelf.items.items)."
              " Seventh pass: '+kid' as a filtered link step (one step yields several objects)."),
        technique=TECH + "seeded graph-mutation histories with probes after every step against a "
                         "from-scratch reachability model; simulated scheduler for ui dispatch",
        design="4 (C08)"),
    "C09": dict(
        level="exploration",
        text=("Seeded simulated histories over the C08 graph world with a registration table "
              "keyed by (handler, expression, dispatch): interleaved observe add/remove for 1-3 "
              "function and bound-method handlers in text, re-spelled text, parsed and "
              "expression-object form, graph mutations each followed by probes (one call per "
              "live registration key iff reachable), removals at count 0 (NotifierNotFound, "
              "nothing changes), placement faults (a node lacking the trait or a plain list "
              "where a TraitList is required, placed at a generated position of the registration "
              "walk: the registration must raise and the population of observer notifiers on "
              "every object, trait and container must be exactly as before), re-entrant "
              "add/remove of registrations from inside handlers, deliveries pending across "
              "unregistration under the simulated scheduler, silent desynchronisation followed "
              "by a removal (atomicity), and dropping roots / handler owners / nodes with gc "
              "(weakref liveness must equal a strong-reference walk of the model). Whenever the "
              "table returns to all-zero no observer notifier may remain anywhere. Sampling, "
              "not proof."),
        note=("Poison objects are placed only while no registration exists; level-aliasing "
              "histories (K1) are excluded by the model-side guard; re-entrant (un)registration "
              "is restricted to registrations whose walk the in-flight change does not re-hook."
              " Later passes added: del and redefinition (add_trait on an existing name) of observed traits, and a reincarnated owner of a registered bound-method handler (address reuse; a violation found there replays only when the allocator co-operates)."
              " Sixth pass: the UI handler installed after the first registrations; metadata instance traits and the Dict-of-Lists link of the graph world."
              " Seventh pass: removals that fail after a whole multi-observable object has been unhooked ('+kid.+tag' after a quiet swap)."),
        technique=TECH + "seeded registration/graph/fault histories with notifier-population "
                         "snapshots, placement faults on the registration walk, gc/drop events "
                         "and a simulated scheduler",
        design="4 (C09)"),
    "C12": dict(
        level="exploration",
        text=("Seeded simulated histories on 2-5 objects declaring nine Property(observe=...) "
              "traits (six cached; two inherited with only the getter overridden) over scalar, Instance, list/dict/set-item and two-link "
              "dependencies, and class-level handlers that read the cached properties while a "
              "change or a restore is in flight: dependency mutations incl. shared and repeated "
              "nodes, slices that change the number of occurrences of an item, equal-list "
              "reassignment, reads of a generated subset of (object, property) pairs after every "
              "op so that caches survive several changes, pickle restart (protocols 2-5) and deep "
              "clone of the whole graph with the history continuing on the copy, gc. Getters are "
              "callback points counting their runs. Oracle: every read equals a recomputation "
              "from the model graph, a cached getter runs at most once per (object, property) "
              "between two ops, and every op that alters the recomputed value delivers at least "
              "one property event whose last 'new' is the recomputed value to observe and "
              "on_trait_change handlers. Sampling, not proof."),
        note=("Reads happen at quiescent points; level-aliasing graphs (K1) are excluded; the "
              "fork uses traits' copy mode 'deep' because plain deepcopy shares Dict items by "
              "reference (observation O3)."
              " Later passes added: objects constructed with keyword values (class-level handlers read defaults during construction), del of dependency traits."
              " Sixth pass: a cached property over a Dict of Lists (shelf.items.items.value)."),
        technique=TECH + "seeded dependency-mutation/read/restart histories against a "
                         "recomputation model, getters as counting callback points",
        design="4 (C12)"),
    "C16": dict(
        level="exploration",
        text=("Seeded simulated histories on tree-shaped object graphs (a fresh object at every "
              "insertion; 40 % of the worlds use value-object nodes) over child / children / table "
              "/ group (Set) links: an extended name of 1-3 links, "
              "each '.' or ':', is registered once through on_trait_change (handler arity 0, 3 or "
              "4; 1 or 2 where traits accepts it) and once through observe for the corresponding expression. Link reassignment, "
              "list, dict and set mutators, container reassignment, gc, drop of detached nodes and "
              "removal of both registrations at a generated point; after every op every object "
              "ever created is probed. Oracle: for every probe legacy called <=> observe called "
              "<=> reachable in the model; reassignment of an intermediate link is reported by "
              "both for '.' links and by neither for ':' links; nothing is reported for "
              "containers behind ':' links; silence after removal. Sampling, not proof."),
        note=("In-place mutation of a container at a '.' link is not asserted for the legacy "
              "side (its documentation says such an event 'may' be reported); agreement is "
              "boolean; 1- and 2-argument legacy handlers are rejected by traits itself for "
              "intermediate changes and not used."
              " Later passes added: del of link traits, replaced containers mutated through an alias."
              " Sixth pass: '+tag' (metadata) as the final step of the name in both systems, deferred=True registrations; F11 fixed in /repo."
              " Seventh pass: registrations on a graph that exists already (F15 fixed in /repo), a second handler under the same name whose owner is collected."),
        technique=TECH + "seeded mutation histories on trees with probes, legacy listener vs "
                         "observe vs from-scratch reachability model",
        design="4 (C16)"),
    "C14": dict(
        level="exploration",
        text=("Crash/restart property. Seeded simulated histories on a pool of objects with "
              "transient traits, ReadOnly, copy metadata (ref/shallow/deep), bounded and nested "
              "containers, Dict of lists, Instance graphs (shared, cyclic), a Set of objects, declared observers, "
              "name_items handlers and a cached observed property. At generated points the "
              "whole pool is restarted (pickle protocols 2-5) or forked (deepcopy) and single "
              "objects are cloned (clone_traits deep/None/shallow, deepcopy); each copy is "
              "compared with a plain-Python model (class, values, transients reset, identity "
              "structure per copy mode, no shared container at any depth), then a liveness "
              "battery runs on it (first every cached property against the copy's own state - a "
              "class-level handler reads a two-dependency cached property while the object is "
              "being filled -, then invalid items rejected with TraitError at every depth, items "
              "events reach name_items handlers and declared observers, observed property "
              "recomputes, ReadOnly stays written), originals must not move, and the history "
              "continues on restored pools. 38 kinds of trait definition objects (incl. a "
              "validated Property) are round-tripped by pickle/copy/deepcopy and compared with "
              "their originals on default value and a value set. An interpreter crash is "
              "triaged to the in-flight run, minimised in child processes and reported. "
              "Sampling, not proof."),
        note=("Snapshots compare by read-equivalence (copying materialises defaults on the "
              "original); copy='ref' links are supposed to share; copy.copy of whole objects is "
              "shallow by definition and not part of the statement."
              " Later passes added: a settable Property stored under another dictionary name, a PrototypedFrom attribute declared before its prototype (known finding K5 excluded by a guard, stored witness)."
              " Sixth pass: copies must report traits_inited()."
              " Seventh pass: post_init observers on copies, every nested object of a deep copy checked for shared containers, an untyped list attribute."),
        technique=TECH + "seeded edit/restart/fork/clone histories against a plain-Python model "
                         "with a liveness battery after every restore; crash triage in child "
                         "interpreters",
        design="4 (C14)"),
    "C10": dict(
        level="exploration",
        text=("Seeded simulated histories on 2-5 instances (created at generated moments) of a "
              "generated class and a subclass overriding defaults, with sixteen default kinds "
              "(constant, list/dict copy, List/Dict/Set objects, factory, _name_default, Tuple "
              "and Union with List/Set/Dict members incl. a nested Tuple, Instance with args, a "
              "default whose post_setattr hook fails on the first read, a never-compared trait, a "
              "trait definition object shared with an unrelated class): reads and re-reads, "
              "in-place mutation of default containers (also nested in the Tuple), valid and "
              "invalid assignments, registering/removing on_trait_change and observe handlers "
              "(copy-on-write instance traits; each handler tagged with the instance it was "
              "registered on), add_trait of Int / List / the class's own definition object and "
              "remove_trait, gc, drop of siblings, "
              "pickle restart of an instance. Default methods, the factory and all handlers are "
              "callback points. After every op: first reads equal the declared default and "
              "reach no handler of any mechanism, default methods ran at most once per "
              "(instance, attribute), re-reads return the same object, no two instances hold "
              "the same mutable default object, handlers were called only for the instance that "
              "changed, every sibling still holds exactly what its own history says, class-level "
              "notifier populations and base traits are unchanged and a fresh instance of each "
              "class reads the declared defaults and none of the added instance traits. "
              "Sampling, not proof."),
        note=("Defaults are compared structurally; the class trait dict caching resolved "
              "wildcard traits for names that were merely looked up is not counted as a change "
              "of definitions."
              " Later passes added: a _<x>_changed_for_<trait> listener and handlers registered on a name that exists only through the class's wildcard definition."
              " Sixth pass: Any defaults that are instances of list/dict subclasses, a mapped trait with a default method and a listener on its shadow value."
              " Seventh pass: a deep clone joins the population as one more sibling."),
        technique=TECH + "seeded multi-instance histories (creation order, gc, drop, restart) "
                         "with default factories and handlers as callback points, "
                         "non-interference checked against per-instance models",
        design="4 (C10)"),
    "C11": dict(
        level="exploration",
        text=("Seeded simulated histories on a Child deferring ten attributes (DelegatesTo and "
              "PrototypedFrom in the four prefix styles - same name, explicit name, 'prefix*', "
              "'*' with __prefix__ declared in the class, inherited with everything else or "
              "inherited from a mixin - and two-level chains through an intermediate object) to "
              "2-3 candidate delegates: valid and invalid assignments through the deferring "
              "object, assignments on any candidate, swapping the delegate (also by way of None) and the chain links, "
              "deleting local values, gc, drop of former delegates, pickle restart, with "
              "on_trait_change and observe handlers on a generated subset of the deferring "
              "attributes. A pointer-following model is checked after every op: every deferring "
              "attribute reads as the current target, DelegatesTo assignments land in the "
              "delegate only, PrototypedFrom assignments create a local value that breaks the "
              "link until deleted, invalid values are rejected by the target trait, a change of "
              "what an attribute mirrors calls each of its handlers exactly once with the new "
              "value, and changes on non-current candidates or after a broken link call none. "
              "Sampling, not proof."),
        note=("The delegate link always holds an object; swapping the delegate itself is not "
              "required to notify."
              " Later passes added: delegates that all compare equal (value objects)."
              " Sixth pass: delegate links whose defaults come from methods returning existing objects (never assigned, never read by the harness), assignment of the very object an attribute reads as."
              " Seventh pass: del of a prototyped attribute that holds no local value."),
        technique=TECH + "seeded two-sided assignment/swap/delete histories with gc, drop and "
                         "restart events against a pointer-following model",
        design="4 (C11)"),
    "C13": dict(
        level="exploration",
        text=("Seeded generated class hierarchies (base on HasTraits / HasStrictTraits / "
              "HasPrivateTraits plus a subclass, each declaring 0-5 explicit traits and 0-4 "
              "overlapping wildcard prefixes over nine policies: Int/Str/Float/Any, ReadOnly, "
              "Constant, Event, Disallow, Python) and histories of get / set / del on 2-4 "
              "instances of base and subclass over 22 names matching zero, one or several "
              "prefixes, exact names and leading underscores, with add_trait / remove_trait and "
              "gc. The order in which instances and classes first resolve a name is part of the "
              "schedule (resolved prefix traits are cached on the class). A rule model (instance "
              "trait, else class trait by MRO, else longest matching prefix, else class default) "
              "predicts the outcome class and value of every access, including write-once, "
              "constant, write-only and disallowed policies. Sampling, not proof."),
        note=("add_trait is applied to names the instance has not accessed under the previous "
              "rule; pickle restart is left to C14 (what survives a pickle would blur this "
              "oracle)."
              " Later passes added: container instance traits and their <name>_items companions."
              " Sixth pass: Union(None, List) class traits whose items companion an in-place mutation adds to one instance only; the value side effect of remove_trait on a companion name is re-read, not predicted."
              " Seventh pass: a handler registered on a name as its first use and removed again; a trait_added listener that declares another name (F16 fixed in /repo)."),
        technique=TECH + "seeded class hierarchies and access histories over several instances "
                         "(resolution order as schedule) against a rule model",
        design="4 (C13)"),
    "C20": dict(
        level="exploration",
        text=("Seeded simulated histories on 2-4 objects with Int, Str, List(Int) and validated "
              "(fault-point validator) traits: "
              "sync_trait links (mutual and one-way, aliases, several partners, chains) added "
              "and removed at generated points, assignments on any side, every list mutator "
              "incl. extended slices, sort, reverse, *=, whole-list assignment, gc, and drop+gc "
              "of a partner between ops, from inside a change handler while a propagation is "
              "in flight, or while sync_trait hands over the first value. A model propagates each real change along the directed link graph "
              "(only through nodes it really changes). After every op all objects must hold "
              "what the link graph says (mutual sides equal; one-way target equal to the source "
              "after source assignments, source untouched by target ops), no handler may be "
              "called twice for one change, no exception of the machinery may reach the exception "
              "handler or the caller (also after removal or partner death; an injected validator "
              "fault on the partner side must leave the partner unchanged and the pair able to "
              "realign), and RecursionError or exceeding the "
              "step cap is a termination violation. Sampling, not proof."),
        note=("Both ends of a link have the same trait type; in-place mutation through one-way "
              "links onto an independently changed target is not compared; link graphs with "
              "redundant paths between List traits are excluded by a guard (known finding K2, "
              "stored witness)."
              " Later passes added: a List whose default comes from a method, handlers closing over their own object, a liveness check after every drop."
              " Sixth pass: a List trait whose name ends in '_items'."
              " Seventh pass: sync_trait refused by the partner's validator."),
        technique=TECH + "seeded two-sided assignment/mutation/link histories with partner "
                         "gc/drop events (also injected inside handlers) against a link-graph "
                         "propagation model",
        design="4 (C20)"),
    "C19": dict(
        level="fault_enumeration",
        text=("Histories of 3-14 documented-API calls are sampled by seed over a world with every "
              "callback site of the statement: custom validators, a two-alternative Union, "
              "_name_default and factory defaults, property getter/setter, cached observed "
              "property, a depends_on property whose getter fails while traits notifies its "
              "listeners, List/Dict/Set item validators at the k-th item, a stand-alone TraitList, "
              "Supports with a two-factory adapter chain, delegation, a PrototypedFrom attribute, "
              "quiet assignments (trait_setq), observed child links, an "
              "attribute kept equal on two objects by sync_trait (its partner-side validation "
              "fails inside the library's own propagation handler: nested deciding callback), "
              "handler (un)registration; static, on_trait_change and observe handlers. For each "
              "sampled history the fault space is enumerated completely: every op x every "
              "eligible site that fired on the fault-free twin x every ordinal k x {TraitError, "
              "ValueError, AttributeError, RuntimeError} is injected on a fresh twin world "
              "(prefix replayed, fault at (i,k), suffix continued). Deciding callbacks: the op "
              "must raise the injected exception or TraitError, the full snapshot (values, "
              "containers, caches by read-equivalence, registrations) must equal the pre-op "
              "state, no handler may run, and every later op must behave exactly as on a twin "
              "that never executed the op. Change handlers: outcome, snapshot and the set of "
              "handlers run must equal the fault-free twin's and the suffix must agree. Enumeration is exhaustive per sampled history; "
              "histories are sampled."),
        note=("Getters run for notifications (not explicit reads) and an injected TraitError in "
              "a non-last Union alternative ('this alternative rejects') are not injection "
              "points; raw TraitList notifiers are documented as not expected to raise and are "
              "not change handlers; default materialisation is not an effect."
              " Later passes added: histories under the library's default exception handlers, exceptions with non-string arguments."
              " Sixth pass: del with a failing default method, sync_trait / unsync as ops, an extended legacy name through a lazily defaulted link, a second adaptation offer; F12-F14 fixed in /repo, K6 recorded (second hand-over of a mutual sync_trait is not injected)."
              " Seventh pass: the getter of an observed cached property failing at notification time."),
        technique=TECH + "twin worlds with exhaustive enumeration of (op, callback site, "
                         "ordinal, exception class) injections per sampled history, "
                         "snapshot/suffix comparison against fault-free and skip twins",
        design="4 (C19)"),
    "C18": dict(
        level="exploration",
        text=("Two phases. (san) The whole runner executes against an ASan+UBSan build of "
              "ctraits (LD_PRELOAD libasan/libubsan, PYTHONMALLOC=malloc): seeded runs drawn "
              "from the generators and executors of every other claimed property (their "
              "oracles ignored), an adversarial world (re-entrant handlers that "
              "register/unregister handlers, add/remove traits, delete attributes and clear the "
              "dictionary of the object being notified, edit notifier lists during dispatch, "
              "values whose __del__ re-enters while C code drops them, self-targeting re-entrancy "
              "that replaces / removes the trait or re-binds the delegate being accessed, raising "
              "callbacks, gc storm with threshold (1,1,1)) and out-of-range / mistyped / truncated "
              "CTrait.__getstate__() tuples fed to __setstate__. The oracle is the process: any "
              "sanitizer report, signal or abort is triaged to the in-flight run, minimised in "
              "child interpreters and reported with the sanitizer report attached. (ref) Normal "
              "build: sys.getrefcount deltas of sentinel values and of the objects around every "
              "op of a reference-counting world (30 op kinds incl. failing validators and "
              "handlers) must equal the holder count of a model, and 22 closed op cycles (incl. "
              "failing and succeeding walks of delegation chains) repeated in three batches of "
              "400 must plateau in sys.getallocatedblocks() and leave the reference counts of "
              "long-lived objects (instances, classes, class traits, names) where they were. "
              "Sampling, not proof."),
        note=("Trusted base: gcc's AddressSanitizer/UBSan, CPython's reference counts and block "
              "counter. Allocation-failure injection is rejected (DESIGN 4/C18). In-range but "
              "inconsistent state tuples (type confusion by construction) are outside the "
              "statement's 'calls through the documented API'."
              " Later passes added: attribute fuzz on trait definition objects, ill-formed arguments to the multi-argument CTrait setters followed by use, original-value traits with dynamic defaults."
              " Sixth pass: exact float/int/str values offered to numeric validators alone and inside compound traits (reference counts), failing default methods under three warning modes with the exception chain walked."
              " Seventh pass: instance-trait fuzz followed by use, hooks/accessors with finalizers, temporary delegates, attribute names with a failing hash, unresolvable pre-6.0 states (G8-G12 fixed in /repo)."),
        technique=TECH + "sanitised re-execution of all simulated workloads plus adversarial "
                         "re-entrancy/gc-storm/corrupted-state worlds; refcount and allocation "
                         "plateau oracles against a holder-count model",
        design="4 (C18)"),
}

NOT_APPLICABLE = {
    "C01": "pure function of (trait configuration, value): no history, schedule, clock, fault or "
           "interleaving for a simulator to vary; deciding it is input enumeration / differential "
           "testing, a different technique family (DESIGN.md section 5)",
    "C03": "differential agreement of two validators on the same input: pure inputs x "
           "configurations, nothing for a scheduler or fault injector to act on (DESIGN.md section 5)",
    "C15": "language recognition and denotation of a pure parser over strings; no state, schedule "
           "or fault (DESIGN.md section 5)",
    "C17": "adapt() is a pure function of (offer registry, type hierarchy, object, target); "
           "completeness/minimality against brute force is enumeration, not simulation "
           "(DESIGN.md section 5); failing factories are covered as a fault site under C19",
}

PENDING = ["C02", "C04", "C06", "C07", "C08", "C09", "C10", "C11", "C12", "C13",
           "C14", "C16", "C18", "C19", "C20"]


def main():
    checks = []
    for pid in sorted(CHECKS):
        c = CHECKS[pid]
        checks.append({
            "property_id": pid,
            "quick_cmd": "./check %s --tier quick" % pid,
            "thorough_cmd": "./check %s --tier thorough" % pid,
            "evidence_file": "evidence/%s.json" % pid,
            "replay_cmd_template": "./check --replay {path}",
            "engine": "simtraits",
            "level_claimed": {"category": c["level"], "text": c["text"],
                              "design_ref": "DESIGN.md section " + c["design"]},
            "level_note": c["note"],
            "technique": c["technique"],
        })
    na = [{"property_id": k, "reason": v} for k, v in sorted(NOT_APPLICABLE.items())]
    for pid in PENDING:
        if pid not in CHECKS:
            na.append({"property_id": pid,
                       "reason": "not claimed yet: the simulation check designed in DESIGN.md "
                                 "section 4 is not built/calibrated at this commit"})
    na.sort(key=lambda d: d["property_id"])
    man = {
        "version": 1,
        "setup_cmd": "./setup.sh",
        "hooks": {
            "guard": "TRAITS_VERIF_SIM",
            "enable": ("no hooks in /repo: every seam is public API, a rebindable module "
                       "global or user-supplied callback code (DESIGN.md section 2); checks "
                       "build a scratch copy of /repo's working tree (rsync + gcc ctraits.c) "
                       "and run against it"),
            "baseline_off_cmd": ("cd /repo && /venv/bin/python -m pytest -ra -q -p no:cacheprovider "
                                 "--timeout=900 --continue-on-collection-errors"),
            "source_commits": [],
            "add_only": True,
        },
        "engines": [{
            "name": "simtraits",
            "path": "simtraits/",
            "serves_properties": sorted(CHECKS),
            "kind_free_text": ("deterministic single-process simulator for traits worlds: seeded "
                               "op+environment-event generator, cooperative callback points "
                               "(faults, gc, drops, nested ops, deferred delivery), reference "
                               "models as oracles, ddmin shrinker, JSON replay files"),
        }],
        "checks": checks,
        "not_applicable": na,
        "notes": ("Exit codes: 0 held, 1 VIOLATION (with replay file), 2 HARNESS-ERROR (never a "
                  "verdict). VERIF_SEED selects the base seed, VERIF_BUDGET_S overrides the wall "
                  "budget of the search, VERIF_REPO points a check at another tree (mutant runs)."),
    }
    with open(os.path.join(HERE, "MANIFEST.json"), "w") as f:
        json.dump(man, f, indent=1)
        f.write("\n")


if __name__ == "__main__":
    main()
