#!/usr/bin/env python3
"""mkmutant.py NAME FILE OLD NEW [COUNT]: write tools/mutants/NAME.diff replacing the
COUNT-th (default: the only) occurrence of OLD by NEW in /repo/FILE."""
import difflib, os, sys
name, rel, old, new = sys.argv[1:5]
nth = int(sys.argv[5]) if len(sys.argv) > 5 else None
src = open(os.path.join("/repo", rel)).read()
old = old.encode().decode("unicode_escape"); new = new.encode().decode("unicode_escape")
n = src.count(old)
if n == 0 or (n > 1 and nth is None):
    sys.exit("OLD occurs %d times" % n)
if nth is None:
    out = src.replace(old, new)
else:
    parts = src.split(old)
    out = old.join(parts[:nth]) + new + old.join(parts[nth:])
d = difflib.unified_diff(src.splitlines(True), out.splitlines(True), "a/" + rel, "b/" + rel)
path = os.path.join(os.path.dirname(os.path.abspath(__file__)), "mutants", name + ".diff")
open(path, "w").write("".join(d))
print(path)
