#!/bin/sh
# Sensitivity self-test: run each tools/mutants/<prop>_*.diff against the quick
# check of its property (prefix before the first '_' names the property).
# usage: tools/run_mutants.sh [pattern] ; expects rc=1 for every mutant.
cd "$(dirname "$0")/.."
pat="${1:-}"
for f in tools/mutants/*${pat}*.diff; do
  b=$(basename "$f" .diff)
  p=$(echo "$b" | cut -d_ -f1 | tr a-z A-Z)
  printf "%-45s " "$b"
  VERIF_WORKERS=${VERIF_WORKERS:-16} tools/mutate.py --patch "$f" --props "$p" --budget "${BUDGET:-20}" 2>&1 | head -3 | cut -c1-260
done
