#!/venv/bin/python
"""tools/debug_run.py PROP INDEX [SEED]: execute one generated run against /repo's installed
traits (no scratch build) and print the outcome with a traceback (development aid)."""
import sys, os, json, traceback
sys.path.insert(0, os.path.dirname(os.path.dirname(os.path.abspath(__file__))))
from simtraits.core import Env, run_seed, Violation
from simtraits.runner import load_prop
pid, idx = sys.argv[1], int(sys.argv[2])
base = int(sys.argv[3]) if len(sys.argv) > 3 else 0
prop = load_prop(pid)
seed = run_seed(base, pid, idx)
trace = prop.gen(seed)
if "-v" in sys.argv:
    print(json.dumps(trace)[:3000])
env = Env(record=True)
import gc; gc.disable()
try:
    prop.execute(trace, env)
    print("OK")
except Violation as v:
    print("VIOLATION", v)
except BaseException:
    tb = traceback.format_exc()
    print(tb[-3500:])
finally:
    if hasattr(prop, "cleanup"): prop.cleanup()
for e in env.events[-15:]: print(e)
