#!/venv/bin/python
"""Confirm a seeded change and run the checks against it.

  tools/seed_verify.py --src /tmp/seed_C06 --k 1 --prop C06 [--also C04,C19] [--budget 25]

1. fresh scratch worktree of /repo HEAD (outside /repo and /verif); build ctraits there;
2. demo passes on the clean worktree; 3. patch applies; rebuild; demo fails;
4. the repository's whole test suite passes with the patch;
5. the quick check(s) are run against the patch (tools/mutate.py: scratch copy, never /repo);
6. everything is stored under /verif/seeded/<prop>-<k>/ (patch.diff, demo.py, notes.md, meta.json);
7. the scratch worktree is removed.
"""
import argparse
import json
import os
import shutil
import subprocess
import sys
import time

HERE = os.path.dirname(os.path.dirname(os.path.abspath(__file__)))
PY = "/venv/bin/python"


def run(cmd, cwd=None, env=None, timeout=1500):
    p = subprocess.run(cmd, cwd=cwd, env=env, capture_output=True, text=True, timeout=timeout)
    return p.returncode, (p.stdout + p.stderr)


def build(wt):
    vp = os.path.join(wt, "traits", "version.py")
    if not os.path.exists(vp):
        shutil.copy("/repo/traits/version.py", vp)
    rc, out = run([PY, "setup.py", "build_ext", "--inplace"], cwd=wt)
    shutil.rmtree(os.path.join(wt, "build"), ignore_errors=True)
    return rc == 0, out[-500:]


def main():
    ap = argparse.ArgumentParser()
    ap.add_argument("--src", required=True)
    ap.add_argument("--k", required=True)
    ap.add_argument("--prop", required=True)
    ap.add_argument("--also", default="")
    ap.add_argument("--budget", default="25")
    ap.add_argument("--skip-suite", action="store_true")
    a = ap.parse_args()
    patch = os.path.join(a.src, "patch%s.diff" % a.k)
    demo = os.path.join(a.src, "demo%s.py" % a.k)
    notes = os.path.join(a.src, "notes%s.md" % a.k)
    wt = "/tmp/sv_%s_%s" % (a.prop, a.k)
    meta = {"property": a.prop, "seed_id": "%s-%s" % (a.prop, a.k), "source": "sub-agent given "
            "only the property text and its own scratch worktree", "ran": []}
    subprocess.run(["git", "-C", "/repo", "worktree", "remove", "--force", wt],
                   capture_output=True)
    rc, out = run(["git", "-C", "/repo", "worktree", "add", "-q", "--detach", wt, "HEAD"])
    if rc != 0:
        print("worktree failed", out)
        return 3
    try:
        env = dict(os.environ, PYTHONPATH=wt, PYTHONDONTWRITEBYTECODE="1")
        ok, out = build(wt)
        if not ok:
            print("build failed", out)
            return 3
        rc_clean, out_clean = run([PY, demo], cwd=wt, env=env, timeout=600)
        meta["ran"].append({"cmd": "demo on clean worktree", "rc": rc_clean})
        rc, out = run(["git", "-C", wt, "apply", patch])
        if rc != 0:
            print("patch does not apply", out)
            return 3
        ok, out = build(wt)
        meta["builds_with_patch"] = ok
        if not ok:
            print("build with patch failed", out)
            return 3
        rc_patched, out_patched = run([PY, demo], cwd=wt, env=env, timeout=600)
        meta["ran"].append({"cmd": "demo with patch", "rc": rc_patched,
                            "tail": out_patched.strip().splitlines()[-3:]})
        prev = {}
        pm = os.path.join(HERE, "seeded", "%s-%s" % (a.prop, a.k), "meta.json")
        if os.path.exists(pm):
            with open(pm) as f:
                prev = json.load(f)
        if a.skip_suite and prev.get("suite_passes_patched") is not None:
            # the suite was run with this patch by an earlier invocation: keep its record
            suite_ok = prev["suite_passes_patched"]
            kept = [r for r in prev.get("ran", []) if r["cmd"].startswith("whole test suite")]
            meta["ran"].extend(kept)
            tail = kept[0]["tail"] if kept else "recorded earlier"
        elif a.skip_suite:
            suite_ok, tail = None, "skipped"
        else:
            t0 = time.time()
            rc, out = run([PY, "-m", "pytest", "-q", "-p", "no:cacheprovider", "--timeout=900",
                           "traits"], cwd=wt, env=env)
            suite_ok = rc == 0
            tail = out.strip().splitlines()[-1] if out.strip() else ""
            meta["ran"].append({"cmd": "whole test suite with patch", "rc": rc, "tail": tail,
                                "wall_s": round(time.time() - t0)})
        meta["demo_passes_clean"] = rc_clean == 0
        meta["demo_fails_patched"] = rc_patched != 0
        meta["suite_passes_patched"] = suite_ok
        confirmed = rc_clean == 0 and rc_patched != 0 and suite_ok is not False
        meta["confirmed"] = confirmed
        print("clean demo rc=%d patched demo rc=%d suite=%s (%s)"
              % (rc_clean, rc_patched, suite_ok, tail))
    finally:
        subprocess.run(["git", "-C", "/repo", "worktree", "remove", "--force", wt],
                       capture_output=True)
    # checks against the patch
    props = [a.prop] + [p for p in a.also.split(",") if p]
    meta["checks"] = {}
    for pid in props:
        rc, out = run([os.path.join(HERE, "tools", "mutate.py"), "--patch", patch, "--props", pid,
                       "--budget", a.budget], cwd=HERE, timeout=3000)
        line = [l for l in out.splitlines() if l.startswith(pid + " rc=")]
        detail = [l.strip() for l in out.splitlines() if l.strip().startswith("check_id=")]
        meta["checks"][pid] = {"rc": rc, "summary": (line[0][:400] if line else out[-300:]),
                               "detail": detail[:1]}
        print(pid, "rc=%d" % rc, (detail[0][:300] if detail else (line[0][:200] if line else "")))
    dst = os.path.join(HERE, "seeded", "%s-%s" % (a.prop, a.k))
    os.makedirs(dst, exist_ok=True)
    shutil.copy(patch, os.path.join(dst, "patch.diff"))
    shutil.copy(demo, os.path.join(dst, "demo.py"))
    if os.path.exists(notes):
        shutil.copy(notes, os.path.join(dst, "notes.md"))
    with open(os.path.join(dst, "meta.json"), "w") as f:
        json.dump(meta, f, indent=1)
        f.write("\n")
    return 0


if __name__ == "__main__":
    sys.exit(main())
