#!/venv/bin/python
"""Run checks against a mutated scratch copy of /repo (never touches /repo).

  tools/mutate.py --patch seeded/x/patch.diff --props C05,C04 [--budget 20]

Copies /repo/traits to a scratch directory outside /repo and /verif, applies
the patch there, runs ./check <prop> with VERIF_REPO pointing at the copy and
VERIF_OUT redirected (so /verif/evidence and /verif/replays are not touched),
prints the verdict per property and removes the copy.
"""
import argparse
import os
import shutil
import subprocess
import sys
import tempfile

HERE = os.path.dirname(os.path.dirname(os.path.abspath(__file__)))


def main():
    ap = argparse.ArgumentParser()
    ap.add_argument("--patch", required=True)
    ap.add_argument("--props", required=True)
    ap.add_argument("--budget", default="20")
    ap.add_argument("--tier", default="quick")
    ap.add_argument("--keep-out", default=None)
    ap.add_argument("--seed", default="0")
    a = ap.parse_args()
    base = "/dev/shm" if os.path.isdir("/dev/shm") else tempfile.gettempdir()
    root = tempfile.mkdtemp(prefix="mutant.", dir=base)
    rc_all = 0
    try:
        subprocess.run(["rsync", "-a", "--exclude=*.so", "--exclude=__pycache__/",
                        "/repo/traits", root + "/"], check=True)
        p = subprocess.run(["patch", "-p1", "-s", "-d", root, "-i",
                            os.path.abspath(a.patch)], capture_output=True, text=True)
        if p.returncode != 0:
            print("PATCH-FAILED", p.stdout, p.stderr)
            return 3
        env = dict(os.environ, VERIF_REPO=root, VERIF_OUT=a.keep_out or (root + "/out"),
                   VERIF_BUDGET_S=a.budget, VERIF_SEED=a.seed)
        for pid in a.props.split(","):
            q = subprocess.run([os.path.join(HERE, "check"), pid, "--tier", a.tier],
                               env=env, capture_output=True, text=True, cwd=HERE)
            tail = [l for l in q.stdout.splitlines()
                    if l.startswith(("VIOLATION", "OK ", "HARNESS", "minimised", "KNOWN"))]
            print("%s rc=%d %s" % (pid, q.returncode, " | ".join(tail)[:600]))
            if q.returncode == 2:
                print(q.stdout[-1500:], q.stderr[-1500:])
            if a.keep_out is None and q.returncode == 1:
                for l in q.stdout.splitlines():
                    if l.startswith("VIOLATION"):
                        path = l.split("replay=")[1]
                        try:
                            import json
                            r = json.load(open(path))
                            print("   check_id=%s ops=%d msg=%s" % (
                                r["check_id"], len(r["trace"].get("ops", ())), r["message"][:300]))
                        except Exception as e:
                            print("   (replay unreadable: %s)" % e)
            rc_all = max(rc_all, q.returncode)
    finally:
        shutil.rmtree(root, ignore_errors=True)
    return rc_all


if __name__ == "__main__":
    sys.exit(main())
