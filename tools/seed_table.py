#!/venv/bin/python
"""Complete seeded/<id>/meta.json from notes.md and write seeded/README.md.

  tools/seed_table.py

For every seeded change: the title and the "what is needed to manifest" section
are taken from the sub-agent's notes.md (copied verbatim into meta.json), the
verdict of each check from the last tools/seed_verify.py run recorded there.
"""
import glob
import json
import os
import re

HERE = os.path.dirname(os.path.dirname(os.path.abspath(__file__)))


def section(text, pattern):
    lines = text.splitlines()
    out, on = [], False
    for ln in lines:
        if ln.startswith("#"):
            if on:
                break
            if re.search(pattern, ln, re.I):
                on = True
                continue
        elif on:
            out.append(ln)
    return "\n".join(out).strip()


def main():
    rows = []
    for d in sorted(glob.glob(os.path.join(HERE, "seeded", "C*-*"))):
        mp = os.path.join(d, "meta.json")
        if not os.path.exists(mp):
            continue
        with open(mp) as f:
            meta = json.load(f)
        notes = ""
        np_ = os.path.join(d, "notes.md")
        if os.path.exists(np_):
            with open(np_) as f:
                notes = f.read()
        title = notes.splitlines()[0].lstrip("# ").strip() if notes else ""
        title = re.sub(r"^(C\d\d\s*)?(/|-)?\s*(spare\s+)?(change|seed)\s*\d\s*[-:]+\s*", "", title,
                       flags=re.I)
        title = re.sub(r"^C\d\d\s+(change|seed)\s*\d\s*[-:]+\s*", "", title, flags=re.I)
        needs = section(notes, r"need|manifest")
        meta["breaks"] = meta.get("property")
        meta["what"] = title
        meta["needs_to_manifest"] = needs
        with open(mp, "w") as f:
            json.dump(meta, f, indent=1)
            f.write("\n")
        caught = []
        missed = []
        for pid, r in sorted(meta.get("checks", {}).items()):
            if r.get("rc") == 1:
                det = (r.get("detail") or [""])[0]
                m = re.search(r"check_id=(\S+)", det)
                caught.append("%s (%s)" % (pid, m.group(1) if m else "violation"))
            else:
                missed.append(pid)
        rows.append((meta["seed_id"], title, "yes" if meta.get("confirmed") else "NO",
                     ", ".join(caught) or "-", ", ".join(missed) or "-"))
    with open(os.path.join(HERE, "seeded", "README.md"), "w") as f:
        f.write("# Seeded changes\n\n"
                "Each directory holds one change to enthought/traits written by a fresh sub-agent that was\n"
                "given only the text of one property and its own scratch worktree (nothing from /verif):\n"
                "`patch.diff`, the agent's demonstration `demo.py` (exit 0 on the pinned tree, non-zero with\n"
                "the patch), its `notes.md`, and `meta.json` (which property it breaks, what it needs in\n"
                "order to manifest, what was run to confirm it and the verdict of the checks).\n\n"
                "Every change was confirmed here with `tools/seed_verify.py`: fresh worktree of /repo HEAD,\n"
                "extension rebuilt, demo passes clean and fails patched, the repository's whole test suite\n"
                "passes with the patch (1618 passed); then the quick check(s) were run against a patched\n"
                "scratch copy (`tools/mutate.py`, never /repo itself).  None of these changes is committed\n"
                "to /repo.  To run a check against one by hand:\n\n"
                "    git -C /repo apply /verif/seeded/<id>/patch.diff && /verif/check <prop>; "
                "git -C /repo checkout -- .\n\n"
                "| seed | change | confirmed | caught by (check id after minimisation) | "
                "also run, not caught |\n|---|---|---|---|---|\n")
        for r in rows:
            f.write("| %s | %s | %s | %s | %s |\n" % r)
        f.write("\nChecks that missed a change when it was first run, and what was strengthened, are\n"
                "listed in DESIGN.md section 9.5.\n")
    print("%d seeds" % len(rows))


if __name__ == "__main__":
    main()
