import random, sys, gc
from traits.api import *
def run(seed):
    rng=random.Random(seed); calls={"d":0,"f":0}; hlog=[]
    def factory(): calls["f"]+=1; return {"made":calls["f"]}
    class A(HasTraits):
        c = Int(3)
        al = Any([1,2])          # list copy default
        ad = Any({"k":1})        # dict copy default
        l = List(Int, [1,2,3])
        d = Dict(Str, Int, {"a":1})
        s = Set(Int, {1,2})
        fac = Any(factory=factory)   # callable-and-args? 
        dyn = Any
        t = Tuple(List(Int), Int)
        u = Union(List(Int), Int)
        def _dyn_default(self): calls["d"]+=1; return [calls["d"]]
        def _c_changed(self, old, new): hlog.append(("static", id(self), old, new))
        def _anytrait_changed(self, name, old, new):
            if name in ("c","al","ad","l","d","s","fac","dyn","t","u"): hlog.append(("any", id(self), name))
    class B(A):
        l = List(Int, [9])
        def _dyn_default(self): calls["d"]+=1; return ["B", calls["d"]]
    decl={"c":3,"al":[1,2],"ad":{"k":1},"l":[1,2,3],"d":{"a":1},"s":{1,2},"t":([],0),"u":[]}
    insts=[A(), A()]
    cls_not={n: len(A.__dict__["__class_traits__"][n]._notifiers(False) or []) for n in decl}
    base_names=sorted(A.__dict__["__base_traits__"].keys())
    seen_dyn={}
    for step in range(30):
        if rng.random()<0.15 and len(insts)<5: insts.append(rng.choice([A,B])())
        o=rng.choice(insts); name=rng.choice(list(decl)+["dyn","fac"]); op=rng.choice(["read","mutate","assign","handler","add_trait","reread","observe"])
        hlog.clear()
        fresh = name not in o.__dict__
        d0=dict(calls)
        if op in ("read","reread"):
            v=getattr(o,name)
            if fresh:
                if hlog: return ("DEFAULT READ NOTIFIED", seed, step, name, hlog)
                if name in decl:
                    exp=decl[name] if not (isinstance(o,B) and name=="l") else [9]
                    if (list(v) if isinstance(v,(list,)) else v)!= (exp) and not (name=="s" and set(v)==exp) and not (name=="d" and dict(v)==exp) and not (name=="t" and (list(v[0]),v[1])==([],0)):
                        return ("WRONG DEFAULT", seed, step, name, v, exp)
                if name=="dyn" and calls["d"]-d0["d"]!=1: return ("DYN COUNT", seed, step, calls, d0)
            else:
                if calls!=d0: return ("DEFAULT RECOMPUTED", seed, step, name)
            if getattr(o,name) is not v: return ("NOT SAME OBJECT", seed, step, name)
            for p in insts:
                if p is not o and name in p.__dict__ and isinstance(v,(list,dict,set)) and p.__dict__[name] is v: return ("SHARED DEFAULT", seed, step, name)
        elif op=="mutate":
            v=getattr(o,name)
            try:
                if isinstance(v,list): v.append(5)
                elif isinstance(v,dict): v["zz"]=5
                elif isinstance(v,set): v.add(5)
            except TraitError: pass
        elif op=="assign":
            try: setattr(o,name, rng.choice([7,[7],{"q":7},{7}]))
            except TraitError: pass
            for rec in hlog:
                if len(rec)>1 and rec[1]!=id(o): return ("FOREIGN HANDLER CALL", seed, step, rec)
        elif op=="handler": o.on_trait_change(lambda: hlog.append(("dyn-h",)), name)
        elif op=="observe": o.observe(lambda ev: hlog.append(("obs-h",)), name)
        elif op=="add_trait":
            o.add_trait("extra%d"%rng.randint(0,2), Int(5))
        # class untouched
        now={n: len(A.__dict__["__class_traits__"][n]._notifiers(False) or []) for n in decl}
        if now!=cls_not: return ("CLASS NOTIFIERS CHANGED", seed, step, cls_not, now)
        if sorted(A.__dict__["__base_traits__"].keys())!=base_names: return ("CLASS TRAITS CHANGED", seed, step)
        f=A()
        for n,exp in decl.items():
            v=getattr(f,n)
            ok = (v==exp) or (n=="t" and (list(v[0]),v[1])==([],0))
            if not ok: return ("FRESH INSTANCE DEFAULT CHANGED", seed, step, n, v, exp)
        if "extra0" in f.trait_names() or "extra1" in f.trait_names(): return ("ADD_TRAIT LEAKED", seed, step)
    return None
bad=0
for seed in range(int(sys.argv[1])):
    r=run(seed)
    if r:
        bad+=1
        if bad<=8: print(r)
print("bad",bad)
