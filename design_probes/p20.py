import random, sys, gc
from traits.api import *
excs=[]
push_exception_handler(lambda *a: excs.append(a[1:3]), reraise_exceptions=False)
class S(HasTraits):
    x = Int
    l = List(Int)
    y = Int
def run(seed):
    rng=random.Random(seed); gc.disable()
    a,b,c=S(),S(),S(); objs={"a":a,"b":b,"c":c}
    calls={k:[] for k in objs}
    def mk(k):
        def h(obj,n,old,new): calls[k].append((n,old,new))
        return h
    for k,o in objs.items(): o.on_trait_change(mk(k), "x,y,l,l_items")
    mutual=rng.random()<0.6; alias=rng.random()<0.3
    a.sync_trait("x", b, "y" if alias else None, mutual=mutual); a.sync_trait("l", b, mutual=mutual)
    three=rng.random()<0.3
    if three: a.sync_trait("x", c, mutual=mutual); a.sync_trait("l", c, mutual=mutual)
    bx="y" if alias else "x"
    linked=True; ctr=[0]; hist=[]
    for step in range(25):
        excs.clear()
        for v in calls.values(): v.clear()
        side=rng.choice(["a","b"]+(["c"] if three else [])); o=objs.get(side)
        if o is None: continue
        op=rng.choice(["setx","setl","append","insert","del","pop","extend","setslice","sort","reverse","clear","imul","unsync","gcb","remove"])
        xn = "x" if side!="b" else bx
        hist.append((side,op))
        try:
            if op=="setx": ctr[0]+=1; setattr(o,xn,ctr[0])
            elif op=="setl": o.l=[rng.randint(0,9) for _ in range(rng.randint(0,4))]
            elif op=="append": o.l.append(rng.randint(0,9))
            elif op=="insert": o.l.insert(rng.randint(-2,5), rng.randint(0,9))
            elif op=="del":
                if o.l: del o.l[rng.randrange(len(o.l))]
            elif op=="pop":
                if o.l: o.l.pop(rng.randrange(len(o.l)))
            elif op=="remove":
                if o.l: o.l.remove(rng.choice(o.l))
            elif op=="extend": o.l.extend([rng.randint(0,9) for _ in range(rng.randint(0,3))])
            elif op=="setslice": i=rng.randint(0,3); j=rng.randint(0,4); o.l[i:j]=[rng.randint(0,9) for _ in range(rng.randint(0,3))]
            elif op=="sort": o.l.sort()
            elif op=="reverse": o.l.reverse()
            elif op=="clear": o.l.clear()
            elif op=="imul": o.l *= rng.randint(0,2)
            elif op=="unsync" and linked and rng.random()<0.3:
                a.sync_trait("x", b, "y" if alias else None, mutual=mutual, remove=True); a.sync_trait("l", b, mutual=mutual, remove=True)
                if three: a.sync_trait("x", c, mutual=mutual, remove=True); a.sync_trait("l", c, mutual=mutual, remove=True)
                linked=False
            elif op=="gcb" and False and "b" in objs and side!="b":
                del objs["b"]; b=None; o=None; gc.collect(); 
        except Exception as e:
            return ("RAISED", seed, step, hist, repr(e))
        if excs: return ("HANDLER EXC", seed, step, hist, excs[:2])
        bb=objs.get("b")
        if linked and bb is not None:
            src_side = side
            if mutual or (side=="a" and op in ("setx",)):
                if a.x!=getattr(bb,bx) or (mutual and list(a.l)!=list(bb.l)): return ("DIVERGED", seed, step, mutual, alias, hist, (a.x,getattr(bb,bx),a.l,bb.l))
                if three and (a.x!=c.x or (mutual and list(a.l)!=list(c.l))): return ("DIVERGED3", seed, step, mutual, hist, (a.x,c.x,a.l,c.l))
        # at most once per side for x
        for k,v in calls.items():
            nx=[e for e in v if e[0] in ("x","y")]
            if len(nx)>1: return ("DOUBLE", seed, step, hist, k, nx)
    return None
bad=0
for seed in range(int(sys.argv[1])):
    r=run(seed)
    if r:
        bad+=1
        if bad<=8: print(r)
print("bad",bad)
