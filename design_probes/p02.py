import random, sys
from traits.api import *
from traits.constants import ComparisonMode
from traits.observation import api as oapi
legacy_exc=[]; obs_exc=[]
push_exception_handler(lambda o,n,old,new: legacy_exc.append(n), reraise_exceptions=False)
oapi.push_exception_handler(lambda ev: obs_exc.append(ev.name), reraise_exceptions=False)
class Boom(Exception): pass
class BadEq:
    def __eq__(self,o): raise RuntimeError("eq")
    def __ne__(self,o): raise RuntimeError("ne")
    __hash__=object.__hash__
def run(seed):
    rng=random.Random(seed)
    plan={}  # handler id -> set of call ordinals that raise
    logs={}
    count={}
    def point(hid, rec):
        count[hid]=count.get(hid,0)+1
        logs.setdefault(hid,[]).append(rec)
        if count[hid] in plan.get(hid,()): raise rng.choice([Boom,ValueError,TraitError,AttributeError,RuntimeError])("injected")
    class A(HasTraits):
        e = Any(comparison_mode=ComparisonMode.equality)
        i = Any(comparison_mode=ComparisonMode.identity)
        n = Any(comparison_mode=ComparisonMode.none)
        k = Int
        ev = Event
        def _e_changed(self, old, new): point("static:e", ("e",old,new))
        def _i_changed(self, name, old, new): point("static:i", ("i",old,new))
        def _k_changed(self, old, new): point("static:k", ("k",old,new))
        def _ev_fired(self, new): point("static:ev", ("ev",Undefined,new))
        def _anytrait_changed(self, name, old, new):
            if name in ("e","i","n","k","ev"): point("any", (name,old,new))
        @observe("e,i,n,k,ev")
        def _dec(self, ev): point("obsdec", (ev.name,ev.old,ev.new))
    a=A()
    def otc(o,nm,old,new): point("otc", (nm,old,new))
    def otc2(o,nm,old,new): point("otc2", (nm,old,new))
    def obs(ev): point("obs", (ev.name,ev.old,ev.new))
    a.on_trait_change(otc, "e,i,n,k,ev"); a.on_trait_change(otc2, "e,i,n,k,ev", priority=True); a.observe(obs, "e,i,n,k,ev")
    allh={"e":["static:e","any","obsdec","otc","otc2","obs"],"i":["static:i","any","obsdec","otc","otc2","obs"],"n":["any","obsdec","otc","otc2","obs"],"k":["static:k","any","obsdec","otc","otc2","obs"],"ev":["static:ev","any","obsdec","otc","otc2","obs"]}
    for h in ["static:e","static:i","static:k","static:ev","any","obsdec","otc","otc2","obs"]:
        plan[h]={rng.randint(1,12) for _ in range(rng.randint(0,3))}
    vals=[1,1.0,True,[1],[1],float("nan"),None,"s","s2",2,3,(1,),BadEq(),BadEq()]
    nan=float("nan"); vals+= [nan,nan]
    stored={"e":None,"i":None,"n":None,"k":0}
    for step in range(30):
        name=rng.choice(["e","i","n","k","ev"]); v=rng.choice(vals) if name!="k" else rng.choice([1,2,3,"bad",None,4,5])
        for l in logs.values(): l.clear()
        legacy_exc.clear(); obs_exc.clear()
        c0=dict(count)
        exc=None
        try: setattr(a,name,v)
        except Exception as e: exc=e
        rejected = name=="k" and not (isinstance(v,int) and not isinstance(v,bool))
        if name=="k" and isinstance(v,bool): rejected=False  # don't care here
        if rejected:
            if not isinstance(exc,TraitError): return ("NOT REJECTED", seed, step, name, v, exc)
            if any(logs.values()): return ("HANDLER ON REJECT", seed, step, logs)
            continue
        if exc is not None: return ("RAISED", seed, step, name, repr(v), repr(exc))
        if name=="ev": changed=True; old=Undefined; new=v
        else:
            old=stored[name]
            mode={"e":"eq","i":"id","n":"none","k":"eq"}[name]
            if mode=="none": changed=True
            elif mode=="id": changed = v is not old
            else:
                if v is old: changed=False
                else:
                    try: changed=bool(old!=v)
                    except Exception: changed=None  # don't care, but must agree
            stored[name]=v; new=v
            if name=="k": new=stored[name]=getattr(a,"k")
            if getattr(a,name) is not new and name!="k": return ("NOT STORED", seed, step, name)
        ncalls={h:len(logs.get(h,[])) for h in allh[name]}
        if changed is None:
            if len(set(ncalls.values()))!=1: return ("DISAGREE on raising eq", seed, step, ncalls)
            continue
        exp=1 if changed else 0
        if any(c!=exp for c in ncalls.values()): return ("CALLCOUNT", seed, step, name, repr(old), repr(v), changed, ncalls)
        if changed:
            for h in allh[name]:
                rec=logs[h][0]
                if rec[0]!=name or rec[1] is not old or rec[2] is not new: return ("ARGS", seed, step, h, rec, repr(old), repr(new))
            injected=[h for h in allh[name] if count[h] in plan.get(h,())]
            routed=len(legacy_exc)+len(obs_exc)
            if routed!=len(injected): return ("ROUTING", seed, step, injected, legacy_exc, obs_exc)
    return None
bad=0
for seed in range(int(sys.argv[1])):
    r=run(seed)
    if r:
        bad+=1
        if bad<=8: print(r)
print("bad",bad)
