import random, sys
from traits.api import *
from traits.observation import api as oapi
push_exception_handler(reraise_exceptions=True); oapi.push_exception_handler(reraise_exceptions=True)
class NodeBase(HasTraits): pass
class Node(NodeBase):
    value = Int
    child = Instance(NodeBase)
    children = List(Instance(NodeBase))
    table = Dict(Str, Instance(NodeBase))
PAIRS=[("child.value","child.value"),("child:value","child:value"),("children.value","children.items.value"),("children:value","children:items:value"),
       ("table.value","table.items.value"),("child.children.value","child.children.items.value"),("child.child.value","child.child.value"),
       ("child:children:value","child:children:items:value"),("children.children.value","children.items.children.items.value"),("children.child.value","children.items.child.value")]
def reach(root, steps):
    objs=[root]
    for st in steps[:-1]:
        nxt=[]
        for o in objs:
            v=o.__dict__.get(st)
            if v is None: continue
            if isinstance(v,list): nxt+=list(v)
            elif isinstance(v,dict): nxt+=list(v.values())
            else: nxt.append(v)
        objs=nxt
    return {id(o) for o in objs}
def run(seed, pair):
    rng=random.Random(seed); legacy,obs=pair
    steps=[s for s in legacy.replace(":",".").split(".")]
    root=Node(); allnodes=[root]; L=[];O=[]
    def hl(o,n,old,new): L.append((id(o),n))
    def ho(ev): O.append((id(ev.object), getattr(ev,"name",None)))
    root.on_trait_change(hl, legacy); root.observe(ho, obs)
    def fresh(): n=Node(); allnodes.append(n); return n
    hist=[]; removed=False
    for step in range(20):
        o=rng.choice(allnodes); op=rng.choice(["child","child_none","children_set","append","insert","del","pop","setslice","table_set","table_del","table_update","unreg"])
        L.clear(); O.clear()
        if op=="child": o.child=fresh()
        elif op=="child_none": o.child=None
        elif op=="children_set": o.children=[fresh() for _ in range(rng.randint(0,3))]
        elif op=="append": o.children.append(fresh())
        elif op=="insert": o.children.insert(rng.randint(0,2), fresh())
        elif op=="del":
            if o.children: del o.children[rng.randrange(len(o.children))]
        elif op=="pop":
            if o.children: o.children.pop()
        elif op=="setslice": o.children[rng.randint(0,2):rng.randint(0,3)]=[fresh() for _ in range(rng.randint(0,2))]
        elif op=="table_set": o.table[rng.choice("ab")]=fresh()
        elif op=="table_del":
            if o.table: del o.table[next(iter(o.table))]
        elif op=="table_update": o.table.update({k:fresh() for k in rng.sample("abc",2)})
        elif op=="unreg" and rng.random()<0.15 and not removed:
            root.on_trait_change(hl, legacy, remove=True); root.observe(ho, obs, remove=True); removed=True
        hist.append((op, allnodes.index(o)))
        inplace = op in ("append","insert","del","pop","setslice","table_set","table_del","table_update")
        if ":" in legacy:
            if L or O: return ("COLON REPORTED", seed, pair, step, hist[-3:], len(L), len(O))
        elif not inplace and bool(L)!=bool(O): return ("STRUCT DISAGREE", seed, pair, step, hist[-3:], len(L), len(O))
        R=set() if removed else reach(root, steps)
        for n in allnodes:
            L.clear(); O.clear(); n.value+=1
            l=bool(L); ob=bool(O); m=id(n) in R
            if not (l==ob==m): return ("PROBE DISAGREE", seed, pair, step, hist, allnodes.index(n), "legacy",l,"observe",ob,"model",m)
    return None
bad=0
for pair in PAIRS:
    for seed in range(int(sys.argv[1])):
        r=run(seed,pair)
        if r:
            bad+=1
            if bad<=10: print(r)
print("bad",bad)
