# throw-away probe: random histories vs from-scratch reachability for a few observe expressions
import random, sys, gc
from traits.api import *
from traits.observation.api import push_exception_handler
push_exception_handler(reraise_exceptions=True)
class NodeBase(HasTraits): pass
class Node(NodeBase):
    value = Int
    child = Instance(NodeBase)
    lazy = Instance(NodeBase)
    children = List(Instance(NodeBase))
    table = Dict(Str, Instance(NodeBase))
    group = Set(Instance(NodeBase))
    def _lazy_default(self): return Node()
    def __hash__(self): return self.__dict__.setdefault("_ser", id(self)) if False else object.__hash__(self)

# expression AST: list of steps; step = (kind, name, notify)
EXPRS = {
 "child.value": [("t","child",True),("t","value",True)],
 "child:value": [("t","child",False),("t","value",True)],
 "children.items.value": [("t","children",True),("li",None,True),("t","value",True)],
 "children:items:value": [("t","children",False),("li",None,False),("t","value",True)],
 "table.items.value": [("t","table",True),("di",None,True),("t","value",True)],
 "group.items.value": [("t","group",True),("si",None,True),("t","value",True)],
 "child.child.value": [("t","child",True),("t","child",True),("t","value",True)],
 "child.children.items.value": [("t","child",True),("t","children",True),("li",None,True),("t","value",True)],
 "lazy.value": [("t","lazy",True),("t","value",True)],
 "children.items.children.items.value": [("t","children",True),("li",None,True),("t","children",True),("li",None,True),("t","value",True)],
}
def matched(root, steps):
    """return set of (id(obj), name) leaf-notify traits & set of id(container) notifying"""
    objs=[root]; traits=set(); conts=set()
    for kind,name,notify in steps:
        nxt=[]
        for o in objs:
            if kind=="t":
                if not isinstance(o, HasTraits): continue
                if notify: traits.add((id(o),name))
                v=o.__dict__.get(name)
                if v is not None: nxt.append(v)
            else:
                if notify: conts.add(id(o))
                nxt.extend(o.values() if kind=="di" else list(o))
        objs=nxt
    return traits, conts

def run(seed, expr, nops=25, verbose=False):
    rng=random.Random(seed); steps=EXPRS[expr]
    pool=[Node() for _ in range(4)]; root=pool[0]; allnodes=list(pool)
    calls=[]
    def h(ev): calls.append(ev)
    root.observe(h, expr)
    hist=[]
    def pick(): 
        r=rng.random()
        if r<0.15:
            n=Node(); allnodes.append(n); return n
        return rng.choice(pool)
    for i in range(nops):
        o=rng.choice(pool); k=rng.choice(["child","child_none","children_set","append","insert","delitem","pop","table_set","table_del","group_add","group_discard","lazy_read","setslice","children_same","clear"])
        calls.clear()
        try:
            if k=="child": n=pick(); o.child=n; d=("child",pool.index(o) if o in pool else -1)
            elif k=="child_none": o.child=None
            elif k=="children_set": o.children=[pick() for _ in range(rng.randint(0,3))]
            elif k=="children_same": o.children=list(o.children)
            elif k=="append": o.children.append(pick())
            elif k=="insert": o.children.insert(rng.randint(-1,3), pick())
            elif k=="delitem":
                if o.children: del o.children[rng.randrange(len(o.children))]
            elif k=="pop":
                if o.children: o.children.pop()
            elif k=="setslice": o.children[rng.randint(0,2):rng.randint(0,3)] = [pick() for _ in range(rng.randint(0,2))]
            elif k=="clear": o.children.clear()
            elif k=="table_set": o.table[rng.choice("ab")]=pick()
            elif k=="table_del":
                if o.table: del o.table[next(iter(o.table))]
            elif k=="group_add": o.group.add(pick())
            elif k=="group_discard":
                if o.group: o.group.discard(next(iter(o.group)))
            elif k=="lazy_read": o.lazy
        except Exception as e:
            return ("EXC during op", seed, expr, i, k, repr(e))
        hist.append((k, allnodes.index(o)))
        # probe
        traits, conts = matched(root, steps)
        for n in allnodes:
            calls.clear()
            n.value += 1
            exp = 1 if (id(n),"value") in traits else 0
            got = len([c for c in calls if getattr(c,"name",None)=="value" and c.object is n])
            if got!=exp or len(calls)!=exp:
                return ("MISMATCH", seed, expr, i, hist, "node", allnodes.index(n), "exp", exp, "got", got, len(calls))
    return None
if __name__=="__main__":
    bad=0
    for expr in EXPRS:
        for seed in range(int(sys.argv[1]) if len(sys.argv)>1 else 300):
            r=run(seed, expr)
            if r:
                bad+=1
                if bad<=12: print(r)
    print("bad", bad)
