import random, sys, copy, pickle
from traits.trait_list_object import TraitList
from traits.trait_dict_object import TraitDict
from traits.trait_set_object import TraitSet
from traits.trait_errors import TraitError
def val(x):
    if isinstance(x,str): raise TraitError("bad")
    return x
def apply_event(before, index, removed, added):
    b=list(before)
    if isinstance(index, slice):
        assert index.step>=2 and 0<=index.start<index.stop<=len(before), ("norm",index,len(before))
        assert b[index]==removed, ("removed mismatch")
        if added: b[index]=added
        else: del b[index]
    else:
        assert isinstance(index,int) and index>=0, ("index",index)
        assert b[index:index+len(removed)]==removed, ("removed mismatch int", index, removed, before)
        b[index:index+len(removed)]=added
    return b
def run_list(seed):
    rng=random.Random(seed); n=rng.randint(0,6); ctr=[100]
    def fresh(): ctr[0]+=1; return ctr[0]
    init=[fresh() for _ in range(n)]
    events=[]
    tl=TraitList(init, item_validator=val, notifiers=[lambda l,i,r,a: events.append((i,list(r),list(a),list(l)))])
    m=list(init)
    for step in range(20):
        L=len(m)
        def ri(): return rng.randint(-L-3,L+3)
        def rs():
            f=lambda: rng.choice([None]+list(range(-L-3,L+4)))
            return slice(f(),f(),rng.choice([None,1,-1,2,-2,3,-3,L+1,-(L+1)]))
        def items(k): return [rng.choice([fresh(),fresh(),"bad"]) if rng.random()<0.1 else fresh() for _ in range(k)]
        op=rng.choice(["set_i","set_s","del_i","del_s","append","extend","insert","iadd","imul","pop","pop0","remove","sort","reverse","clear","set_s_match"])
        before=list(m); events.clear()
        def both(f):
            em=et=None; rm=rt=None
            try: rm=f(m)
            except Exception as e: em=e
            try: rt=f(tl)
            except Exception as e: et=e
            return em,et,rm,rt
        if op=="set_i": i=ri(); v=items(1)[0]; f=lambda l: l.__setitem__(i,v)
        elif op=="set_s": s=rs(); v=items(rng.randint(0,3)); f=lambda l: l.__setitem__(s,list(v))
        elif op=="set_s_match": s=rs(); v=items(len(m[s])); f=lambda l: l.__setitem__(s,list(v))
        elif op=="del_i": i=ri(); f=lambda l: l.__delitem__(i)
        elif op=="del_s": s=rs(); f=lambda l: l.__delitem__(s)
        elif op=="append": v=items(1)[0]; f=lambda l: l.append(v)
        elif op=="extend": v=items(rng.randint(0,3)); f=lambda l: l.extend(list(v))
        elif op=="insert": i=ri(); v=items(1)[0]; f=lambda l: l.insert(i,v)
        elif op=="iadd": v=items(rng.randint(0,3)); f=lambda l: l.__iadd__(list(v))
        elif op=="imul": k=rng.randint(-1,3); f=lambda l: l.__imul__(k)
        elif op=="pop": i=ri(); f=lambda l: l.pop(i)
        elif op=="pop0": f=lambda l: l.pop()
        elif op=="remove": v=rng.choice(m+[7]) if m else 7; f=lambda l: l.remove(v)
        elif op=="sort": r=rng.random()<0.5; f=lambda l: l.sort(reverse=r)
        elif op=="reverse": f=lambda l: l.reverse()
        elif op=="clear": f=lambda l: l.clear()
        # model: reject "bad" first
        em,et,rm,rt=both(f)
        if em is not None and m!=before: m[:]=before
        # the model list accepted "bad" strings: emulate validation: if any "bad" in m and not in before -> model should have raised TraitError & unchanged
        if em is None and any(isinstance(x,str) for x in m):
            m[:]=before; em=TraitError("bad")
        if isinstance(et,TraitError) and em is not None and list(tl)==before==m and not events: continue
        if (em is None)!=(et is None) or (em is not None and type(em) is not type(et)):
            return ("EXC CLASS", seed, step, op, repr(em), repr(et))
        if list(tl)!=m: return ("CONTENT", seed, step, op, before, m, list(tl))
        if em is not None:
            if events: return ("EVENT ON FAILURE", seed, step, op, events)
            continue
        if m!=before and len(events)!=1: return ("NEVENTS", seed, step, op, before, m, events)
        if len(events)>1: return ("MANY EVENTS", seed, step, op, events)
        for (i,r,a,snap) in events:
            try: rep=apply_event(before,i,r,a)
            except AssertionError as e: return ("LAW", seed, step, op, before, m, (i,r,a), e.args)
            if rep!=m or snap!=m: return ("REPLAY", seed, step, op, before, m, (i,r,a), rep)
    return None
bad=0
for seed in range(int(sys.argv[1])):
    r=run_list(seed)
    if r:
        bad+=1
        if bad<=8: print(r)
print("list bad",bad)
