import sys
import p08
from p08 import *
def aliasing(root, steps):
    """True if some observable (trait of obj, or container) is matched at 2 different depths"""
    seen={}  # key -> depth
    objs=[root]
    for depth,(kind,name,notify) in enumerate(steps):
        nxt=[]
        for o in objs:
            if kind=="t":
                if not isinstance(o, HasTraits): continue
                key=("t",id(o),name)
                v=o.__dict__.get(name)
                if v is not None: nxt.append(v)
            else:
                key=("c",id(o))
                nxt.extend(o.values() if kind=="di" else list(o))
            if seen.setdefault(key,depth)!=depth: return True
        objs=nxt
    return False
# patch run(): wrap matched to track aliasing via global flag
orig_matched=p08.matched
flag={"alias":False}
def matched2(root, steps):
    if aliasing(root, steps): flag["alias"]=True
    return orig_matched(root, steps)
p08.matched=matched2
bad=0; badalias=0; total=0; aliased=0
for expr in EXPRS:
    for seed in range(int(sys.argv[1])):
        flag["alias"]=False; total+=1
        r=p08.run(seed, expr)
        if flag["alias"]: aliased+=1
        if r:
            if flag["alias"]: badalias+=1
            else:
                bad+=1
                if bad<=8: print(r)
print("total",total,"aliased runs",aliased,"bad-with-alias",badalias,"bad-without-alias",bad)
