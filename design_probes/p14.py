import random, sys, pickle, copy
from traits.api import *
class NodeBase(HasTraits): pass
class Node(NodeBase):
    value = Int
    ro = ReadOnly
    scratch = Int(7, transient=True)
    tags = List(Int, minlen=0, maxlen=5)
    grid = List(List(Int))
    table = Dict(Str, List(Int))
    group = Set(Int)
    child = Instance(NodeBase)
    children = List(Instance(NodeBase))
    log = List(transient=True)
    total = Property(Int, observe="children.items.value")
    @cached_property
    def _get_total(self): return sum(c.value for c in self.children)
    @observe("tags.items, grid.items.items, table.items.items, group.items, children.items.value")
    def _obs(self, ev): self.log.append(type(ev).__name__)
    def _tags_items_changed(self, ev): self.log.append("legacy_items")
def rand_state(rng):
    ns=[Node() for _ in range(3)]
    for n in ns:
        n.value=rng.randint(0,9); n.scratch=rng.randint(10,20)
        if rng.random()<0.5: n.ro=rng.randint(0,9)
        n.tags=[rng.randint(0,9) for _ in range(rng.randint(0,4))]
        n.grid=[[rng.randint(0,9) for _ in range(rng.randint(0,2))] for _ in range(rng.randint(0,3))]
        n.table={k:[rng.randint(0,9)] for k in rng.sample("abc", rng.randint(0,3))}
        n.group={rng.randint(0,9) for _ in range(rng.randint(0,3))}
        n.child=rng.choice(ns+[None]); n.children=[rng.choice(ns) for _ in range(rng.randint(0,3))]
    return ns
def snap(n): return (n.value, None if n.__dict__.get("ro",Undefined) is Undefined else n.__dict__["ro"], list(n.tags), [list(x) for x in n.grid], {k:list(v) for k,v in n.table.items()}, set(n.group), len(n.children))
def check_live(c, tag):
    errs=[]
    def must_reject(f, what):
        try: f(); errs.append(tag+": accepted invalid "+what)
        except TraitError: pass
    must_reject(lambda: setattr(c,"value","x"), "value")
    must_reject(lambda: c.tags.append("x"), "tags.append")
    must_reject(lambda: c.tags.extend([1]*9), "tags maxlen")
    if c.grid: must_reject(lambda: c.grid[0].append("x"), "grid[0].append")
    must_reject(lambda: c.grid.append(["x"]), "grid.append")
    for k in c.table: must_reject(lambda: c.table[k].append("x"), "table[k].append"); break
    must_reject(lambda: c.table.__setitem__(1,[1]), "table key")
    must_reject(lambda: c.group.add("x"), "group.add")
    must_reject(lambda: c.children.append(3), "children.append")
    if c.__dict__.get("ro",Undefined) is not Undefined: must_reject(lambda: setattr(c,"ro",99), "ro second write")
    c.log[:]=[]
    c.tags.append(1) if len(c.tags)<5 else c.tags.pop()
    if "legacy_items" not in c.log or "ListChangeEvent" not in c.log: errs.append(tag+": tags mutation not notified "+str(c.log))
    if c.grid:
        c.log[:]=[]; c.grid[0].append(5)
        if "ListChangeEvent" not in c.log: errs.append(tag+": nested grid mutation not observed")
    for k in c.table:
        c.log[:]=[]; c.table[k].append(5)
        if "ListChangeEvent" not in c.log: errs.append(tag+": table[k] mutation not observed")
        break
    c.log[:]=[]; c.group.add(77)
    if "SetChangeEvent" not in c.log: errs.append(tag+": group mutation not observed")
    if c.children:
        t0=c.total; c.children[0].value += 1
        exp=sum(x.value for x in c.children)
        if c.total!=exp: errs.append(tag+": stale total")
    if c.scratch!=7: errs.append(tag+": transient not reset %r"%c.scratch)
    return errs
def run(seed):
    rng=random.Random(seed); ns=rand_state(rng)
    mode=rng.choice(["pickle2","pickle5","deepcopy","clone_deep","clone_none","clone_shallow"])
    before=[snap(n) for n in ns]
    if mode.startswith("pickle"): cs=pickle.loads(pickle.dumps(ns, int(mode[-1])))
    elif mode=="deepcopy": cs=copy.deepcopy(ns)
    else: cs=[n.clone_traits(copy={"clone_deep":"deep","clone_none":None,"clone_shallow":"shallow"}[mode]) for n in ns]
    errs=[]
    for n,c in zip(ns,cs):
        if type(c) is not type(n): errs.append("class")
        if snap(c)!=snap(n): errs.append(("values differ", mode, snap(n), snap(c)))
        for name in ("tags","grid","table","group","children"):
            if getattr(c,name) is getattr(n,name): errs.append(mode+": shared container "+name)
        for a,b in zip(n.grid,c.grid):
            if a is b: errs.append(mode+": shared inner grid list")
        for k in n.table:
            if n.table[k] is c.table[k]: errs.append(mode+": shared inner table list")
    for i,c in enumerate(cs): errs+=check_live(c, mode)
    after=[snap(n) for n in ns]
    if after!=before: errs.append(mode+": original changed by mutating copy")
    return (seed, sorted(set(map(str,errs)))[:6]) if errs else None
bad=0; kinds={}
for seed in range(int(sys.argv[1])):
    r=run(seed)
    if r:
        bad+=1
        for e in r[1]: kinds[e.split(" (")[0][:80]]=kinds.get(e.split(" (")[0][:80],0)+1
print("bad",bad)
for k,v in sorted(kinds.items(), key=lambda kv:-kv[1])[:25]: print(v,k)
