import random, sys, pickle, copy
from traits.api import *
from traits.observation.api import push_exception_handler
push_exception_handler(reraise_exceptions=True)
class NodeBase(HasTraits): pass
class Node(NodeBase):
    value = Int
    child = Instance(NodeBase)
    children = List(Instance(NodeBase))
    table = Dict(Str, Instance(NodeBase))
    ncalls = Int(0, transient=True)
    total = Property(Int, observe="children.items.value")
    deep = Property(Int, observe="child.children.items.value")
    tsum = Property(Int, observe="table.items.value")
    unc = Property(Int, observe="child.value")
    @cached_property
    def _get_total(self): self.__dict__["ncalls"]=self.__dict__.get("ncalls",0)+1; return sum(c.value for c in self.children)
    @cached_property
    def _get_deep(self): return sum(c.value for c in self.child.children) if self.child else -1
    @cached_property
    def _get_tsum(self): return sum(c.value for c in self.table.values())
    def _get_unc(self): return self.child.value if self.child else -1
def model(o):
    return dict(total=sum(c.value for c in o.children), deep=(sum(c.value for c in o.child.children) if o.child else -1),
                tsum=sum(c.value for c in o.table.values()), unc=(o.child.value if o.child else -1))
def run(seed, nops=30):
    rng=random.Random(seed); pool=[Node() for _ in range(4)]; ctr=[0]
    events={i:[] for i in range(4)}
    for i,o in enumerate(pool):
        o.observe(lambda ev,i=i: events[i].append((ev.name,ev.old,ev.new)), "total,deep,tsum,unc")
    hist=[]
    for step in range(nops):
        o=rng.choice(pool); k=rng.choice(["value","child","children_set","append","insert","del","table_set","table_del","read","setslice","restart","clone"])
        before=[model(p) for p in pool]
        for e in events.values(): e.clear()
        if k=="value": ctr[0]+=1; o.value=ctr[0]
        elif k=="child": o.child=rng.choice(pool+[None])
        elif k=="children_set": o.children=[rng.choice(pool) for _ in range(rng.randint(0,3))]
        elif k=="append": o.children.append(rng.choice(pool))
        elif k=="insert": o.children.insert(rng.randint(0,2), rng.choice(pool))
        elif k=="del":
            if o.children: del o.children[rng.randrange(len(o.children))]
        elif k=="setslice": o.children[rng.randint(0,2):rng.randint(0,3)]=[rng.choice(pool) for _ in range(rng.randint(0,2))]
        elif k=="table_set": o.table[rng.choice("ab")]=rng.choice(pool)
        elif k=="table_del":
            if o.table: o.table.pop(next(iter(o.table)))
        elif k=="read": [getattr(o,n) for n in ("total","deep","tsum","unc")]
        elif k in ("restart","clone"):
            if k=="restart": pool=pickle.loads(pickle.dumps(pool))
            else: pool=copy.deepcopy(pool)
            events={i:[] for i in range(4)}
            for i,p in enumerate(pool): p.observe(lambda ev,i=i: events[i].append((ev.name,ev.old,ev.new)), "total,deep,tsum,unc")
            before=[model(p) for p in pool]
        hist.append((k,))
        after=[model(p) for p in pool]
        for i,p in enumerate(pool):
            for n in ("total","deep","tsum","unc"):
                if before[i][n]!=after[i][n]:
                    evs=[e for e in events[i] if e[0]==n]
                    if not evs or evs[-1][2]!=after[i][n]:
                        return ("NO/BAD EVENT", seed, step, k, i, n, before[i][n], after[i][n], evs, hist)
                got=getattr(p,n)
                if got!=after[i][n]: return ("STALE", seed, step, k, i, n, "got", got, "exp", after[i][n], hist)
    return None
bad=0
for seed in range(int(sys.argv[1])):
    r=run(seed)
    if r:
        bad+=1
        if bad<=6: print(r)
print("bad",bad)
