import itertools, sys
from p08 import *
def trial(seq, expr="child.child.value", n=3):
    pool=[Node() for _ in range(n)]; root=pool[0]; calls=[]
    root.observe(lambda ev: calls.append(ev), expr)
    for (o,t) in seq:
        pool[o].child = None if t<0 else pool[t]
    traits,_=matched(root, EXPRS[expr])
    for i,nd in enumerate(pool):
        calls.clear(); nd.value+=1
        exp = 1 if (id(nd),"value") in traits else 0
        if len(calls)!=exp: return (i,exp,len(calls))
    return None
ops=[(o,t) for o in range(3) for t in (-1,0,1,2)]
for L in (1,2,3,4):
    found=0
    for seq in itertools.product(ops, repeat=L):
        r=trial(seq)
        if r:
            found+=1
            if found<=5: print(L, seq, r)
    print("len",L,"violations",found)
    if found: break
